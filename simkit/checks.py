"""Per-property check definitions: which world, which stages, which budgets."""
import os

from . import core

RUNNER_COMPONENTS = {
    "real": ["pyphysim.simulations.runner.SimulationRunner.simulate (all variations / single index)",
             "SimulationResultsSaver (load/save/periodic save/delete partial results)",
             "SimulationParameters unpacking, equality, pack indexes", "SimulationResults merge/append/lookup, pickle and json save/load",
             "Result.create/update/merge"],
    "fake": ["wall clock (VirtualClock bound to runner.time)", "file system (SimDisk bound to results.open, runner.os, results.os, parameters.open)",
             "user program (_run_simulation/_keep_going/_on_* callbacks scripted from the plan)"],
    "stub_or_not_run": ["simulate_in_parallel / ipyparallel (not installed)", "config-file parsing"],
}

DEFS = {
    "C07": {
        "measure": "crash context = (fault action, seam site or file:line, position of the variation {only, first, middle, last}, repetition class {before first success, interior}, state of that variation's partial file before>after the crash {absent, empty, torn, ok, foreign}); for completed calls the C05 measure",
        "module": "worlds.c07", "level": "fault_enumeration",
        "stages": {
            "quick": [{"name": "sampled multi-crash plans", "n": 12000, "wall": 45, "opts": {"mode": "sample", "chunk": 25}},
                      {"name": "per-scenario sweep of every seam event", "n": 96, "wall": 35, "opts": {"mode": "sweep", "chunk": 1}}],
            "thorough": [{"name": "sampled multi-crash plans", "n": 400000, "wall": 360, "opts": {"mode": "sample", "chunk": 50}},
                         {"name": "per-scenario sweep of every seam event", "n": 3000, "wall": 200, "opts": {"mode": "sweep", "chunk": 1}},
                         {"name": "per-scenario sweep of every seam event and every source line", "n": 400, "wall": 330,
                          "opts": {"mode": "sweep", "sweep_lines": True, "chunk": 1, "plan_timeout": 900}}],
        },
        "rule": ("plan = seeded (grid, rep_max, scripted skips/durations/stop rule, clock jumps, file format/folder/buffer knobs) + 0-3 incarnations each "
                 "ended by one injected fault (hard kill, soft interrupt, OSError, torn write) at a seam event or source-line event, + a fault-free "
                 "final incarnation; sweep stages enumerate EVERY seam event (and, thorough, every line event of pyphysim/simulations/*.py) of a scenario. "
                 "distinct = distinct sha256 of the full event log (seam events, user-iteration calls, faults); non-trivial = at least one fault fired, "
                 "or more than one incarnation, or more than one variation"),
        "assumptions": [
            "process-crash model: bytes handed to the OS survive, user-space buffers are lost on a hard kill and flushed on a soft interrupt; power loss (loss of un-fsynced page cache) is not modelled",
            "partial-results files are located with the library's public naming helper get_partial_results_filename; naming itself is not under test",
            "read errors are not injected: the property speaks of interruptions, an unreadable disk is outside its quantifier",
            "simulate_in_parallel (ipyparallel) is not installed and is not run",
        ],
        "components": RUNNER_COMPONENTS,
    },
    "C05": {
        "measure": 'completed call = (number of unpacked parameters, number of variations, stop-rule kind @ where it fired {rep1, middle, limit}, number of skips (capped), first repetition skipped?, call kind, position in the history, same runner?, resumed from a partial file?, rep_max class)',
        "module": "worlds.c05", "level": "exploration",
        "stages": {
            "quick": [{"name": "fault-free histories", "n": 24000, "wall": 55, "opts": {"chunk": 50}}],
            "thorough": [{"name": "fault-free histories", "n": 1500000, "wall": 840, "opts": {"chunk": 100}}],
        },
        "rule": ("plan = seeded grid (0-3 unpacked parameters, up to 24 combinations; ints, floats, strings, numpy arrays), rep_max, stop rule, skip pattern, "
                 "virtual durations and clock jumps, and a history of 1-4 simulate()/simulate(i)/rep_max changes on one runner or on fresh runners sharing the disk; "
                 "also: the grid changed on the live runner between two calls (parameter un-marked / marked, values re-ordered in the start hook), grids mixing types, an array-valued result from a reused buffer, "
                 "progress-bar styles; no disk faults (C07 injects them), but without a results file a call may be cut short by an exception (user program / Ctrl-C) and simulate() called again, which must satisfy the statement on its own. distinct = distinct event-log digests; non-trivial = more than one variation or more than one call in the history"),
        "assumptions": ["serial simulate only; simulate_in_parallel needs ipyparallel which is not installed",
                        "the number of _keep_going evaluations and anything about timing is deliberately not constrained"],
        "components": RUNNER_COMPONENTS,
    },
    "C06": {
        "measure": '(level, result type(s), accumulate flag, arithmetic mode, sizes of the represented observation lists = canonical merge-tree shape, whether an empty destination was merged into)',
        "module": "worlds.c06", "level": "exploration",
        "stages": {
            "quick": [{"name": "accumulator schedules and merge trees", "n": 120000, "wall": 50, "opts": {"chunk": 250}}],
            "thorough": [{"name": "accumulator schedules and merge trees", "n": 6000000, "wall": 800, "opts": {"chunk": 1000}}],
        },
        "rule": ("plan = a stream of 1-40 observations scheduled over up to 8 accumulators (contiguous chunks, updates interleaved with merges, arbitrary association "
                 "order; non-adjacent merges for the commutative types), for each of the four result types, value accumulation on/off, exact-integer and float arithmetic; "
                 "set level: merge_all_results/append_all_results histories incl. merging into an empty set; combine level: two grids with overlapping unpacked values. "
                 "No fault kinds exist for this property (said in DESIGN.md). distinct = distinct event-log digests; non-trivial = at least one merge/append/combine"),
        "assumptions": ["exact mode uses integers small enough that every partial float sum is exact, so equality is ==; float mode uses relative tolerance 1e-9",
                        "merging an EMPTY misc result and merging sets that hold several results per name are outside the statement's quantifier and are not generated"],
        "components": {"real": ["Result.create/update/merge and statistics", "SimulationResults add/append/merge_all/append_all", "combine_simulation_results, combine_simulation_parameters, get_pack_indexes"],
                       "fake": ["the scheduler that decides which accumulator receives an observation and the merge tree"], "stub_or_not_run": []},
    },
    "C08": {
        "measure": '(class, mutator kind, cache mask before the mutation {H, big_H, big_W populated?} read privately for coverage only, path loss set?, kinds of reads since the previous mutation)',
        "module": "worlds.c08", "level": "exploration",
        "stages": {
            "quick": [{"name": "update/read histories", "n": 100000, "wall": 50, "opts": {"chunk": 200}}],
            "thorough": [{"name": "update/read histories", "n": 5000000, "wall": 800, "opts": {"chunk": 1000}}],
        },
        "rule": ("plan = one channel object (plain or external-interference), K 1-4 users with unequal antennas, and 4-27 operations from randomize (channel RandomState re-seeded "
                 "from the plan), init_from_channel_matrix, set_pathloss(matrix|None) [+ external-interference path loss], noise_var, set_post_filter, reads of every view "
                 "(reads are operations: they populate caches) and corrupt_data / corrupt_concatenated_data with re-seeded noise. No fault kinds exist for this property. "
                 "distinct = distinct event-log digests; non-trivial = at least two state-changing mutations"),
        "assumptions": ["K (and the number of interference sources) is constant within a plan so that the current path loss stays meaningful, as the statement requires",
                        "post filters are square per receiver; after a re-dimensioning mutator data is only sent once a matching post filter (or None) was set again",
                        "private cache fields are read for the coverage measure only, never for a verdict"],
        "components": {"real": ["MultiUserChannelMatrix", "MultiUserChannelMatrixExtInt", "util.conversion.single_matrix_to_matrix_of_matrices", "randn_c_RS"],
                       "fake": ["operation scheduler", "seeds of the channel/noise RandomStates (public set_channel_seed/set_noise_seed)"], "stub_or_not_run": []},
    },
    "C10": {
        "measure": '(solver, initialisation mode, operation, which derived fields {full_F, full_W_H, full_W} were cached before the operation, previous operation)',
        "module": "worlds.c10", "level": "exploration",
        "stages": {
            "quick": [{"name": "solver histories", "n": 24000, "wall": 45, "opts": {"chunk": 20}},
                      {"name": "MMSE solver, extreme powers", "n": 6000, "wall": 14, "opts": {"chunk": 20, "kind": "mmse", "extreme_powers": True}}],
            "thorough": [{"name": "solver histories", "n": 600000, "wall": 720, "opts": {"chunk": 50}},
                         {"name": "MMSE solver, extreme powers", "n": 120000, "wall": 150, "opts": {"chunk": 50, "kind": "mmse", "extreme_powers": True}}],
        },
        "rule": ("plan = one solver (closed form, alternating minimisation, minimum leakage, max SINR, MMSE) on a seeded K=2-4 user channel (closed form: K=3, Ns=N/2), unequal antennas, "
                 "1..min(Nr,Nt)-1 streams, initialisation mode, 1-60 iterations, scalar/vector/default power, and 2-12 operations from solve / randomizeF / set_precoders(F|full_F[,P]) / "
                 "set_receive_filters(W|W_H) / P= / clear / reads of the derived quantities (reads populate caches). While solve runs, _step is wrapped on the instance and the leaked "
                 "interference is recorded after every iteration. No fault kinds exist for this property. distinct = distinct event-log digests; non-trivial = at least one solve and two operations"),
        "assumptions": ["the stream configuration asked for is fixed within a plan (solves may drop streams, the stream-search drivers may reduce them; the model follows solver.Ns); the channel object may be re-randomised with other dimensions between two solves (operation rechannel), and its noise variance changed",
                        "identity of the compensated direct channel is checked with tolerance 1e-8*cond and skipped (counted) when cond > 1e8, i.e. where the statement says 'defined'",
                        "monotone leakage is only asserted for alternating minimisation and minimum leakage with equal powers and no noise, as stated",
                        "every RandomState reachable from the solver object (incl. nested helper solvers) is re-seeded through a private attribute walk: a documented read-only seam"],
        "components": {"real": ["pyphysim.ia.iabase.IASolverBaseClass", "ClosedFormIASolver, AlternatingMinIASolver, MinLeakageIASolver, MaxSinrIASolver, MMSEIASolver", "GreedStreamIASolver and BruteForceStreamIASolver driving the solver under test (operation stream_search)", "MultiUserChannelMatrix"],
                       "fake": ["operation scheduler", "RandomState seeds"], "stub_or_not_run": []},
    },
    "C14": {
        "measure": '(operation trigram, decade of the stream position, decade of the request size)',
        "module": "worlds.c14", "level": "exploration",
        "stages": {
            "quick": [{"name": "request/skip histories", "n": 60000, "wall": 50, "opts": {"chunk": 50}}],
            "thorough": [{"name": "request/skip histories", "n": 2000000, "wall": 840, "opts": {"chunk": 100}}],
        },
        "rule": ("plan = generator configuration (Fd 0..500 Hz, Ts 1e-9..1 s, L 1-16 rays incl. odd counts, shape None/int/tuple (also as list / numpy ints), RandomState seed) and 1-40 operations from generate(n) (n 1..1e5, also None, "
                 "coincidences with L and prod(shape)), skip(n) (clock jumps incl. 0, cumulative positions to ~1e10 samples), get_samples(), bursts of tiny requests, the shape setter, clones (copy/deepcopy/pickle; both objects must continue "
                 "the same process), similar generators up to the second generation; the last three delivered blocks are held and must not be rewritten; 0.15 % of the plans make one request of 5e6..3e7 ray-samples (L up to 64). "
                 "Biased to small requests at large positions. The only 'fault' is the clock jump itself. "
                 "distinct = distinct event-log digests; non-trivial = at least one request and two operations"),
        "assumptions": ["the reference model evaluates h(k*Ts) with an integer sample counter and the generator's own phases (_phi_l/_psi_l, named by the property as 'the generator's fixed random phases')",
                        "tolerance sqrt(L)*2*pi*Fd*Ts*0.01 + 1e-9: the implementation's legitimate timing deviations (step factor 1.0000000001, float accumulation bounded by the plan generator) stay below 1e-3 sample, a one-sample slip is ~100x above",
                        "#operations x position <= 4.5e12 so that legitimate float accumulation of the generator's clock stays below 1e-3 sample"],
        "components": {"real": ["pyphysim.channels.fading_generators.JakesSampleGenerator"], "fake": ["request/skip scheduler (the generator's clock is jumped with skip)", "RandomState seed", "clones of the generator (copy / deepcopy / pickle) and similar generators up to the second generation are real objects made by the world"], "stub_or_not_run": []},
    },
    "C03": {
        "measure": '(channel kind, fading generator, transmission domain, direction switched?, path loss set?, previous transmission domain, selection kind)',
        "module": "worlds.c03", "level": "exploration",
        "stages": {
            "quick": [{"name": "transmission histories", "n": 60000, "wall": 50, "opts": {"chunk": 50}}],
            "thorough": [{"name": "transmission histories", "n": 3000000, "wall": 840, "opts": {"chunk": 100}}],
        },
        "rule": ("plan = one channel object (TdlChannel, TdlMimoChannel, SuChannel, SuMimoChannel / SuChannel with unequal antennas, MuChannel, MuMimoChannel), Jakes or Rayleigh fading "
                 "(all random sources seeded from the plan), a tap profile (1-8 arbitrary taps incl. colliding delays, or COST259), and 2-15 operations from time-domain transmission, "
                 "frequency-domain transmission (fft 4-64; selection None / index array / slice incl. steps that do not divide the span), direction switch, path-loss change. "
                 "No fault kinds exist for this property; the history part is thin (said in DESIGN.md). distinct = distinct event-log digests; non-trivial = at least two transmissions"),
        "assumptions": ["response sample j is the one applied to input sample j (the implementation's convention for 'time-varying convolution')",
                        "the response is queried immediately after its transmission; changing the path loss between a transmission and its query is outside the quantifier",
                        "the Jakes process itself is checked under C14; here only consistency between output and reported response is decided"],
        "components": {"real": ["fading.TdlChannel/TdlMimoChannel/TdlChannelProfile/TdlImpulseResponse", "singleuser.SuChannel/SuMimoChannel", "multiuser.MuChannel/MuMimoChannel",
                                "fading_generators.JakesSampleGenerator/RayleighSampleGenerator"],
                       "fake": ["operation scheduler", "numpy global RNG and RandomState seeds"], "stub_or_not_run": []},
    },
    "C13": {
        "measure": '(model, attribute set, rejected?, small-distance policy, previous attribute)',
        "module": "worlds.c13", "level": "exploration",
        "stages": {
            "quick": [{"name": "setter histories", "n": 120000, "wall": 45, "opts": {"chunk": 250}}],
            "thorough": [{"name": "setter histories", "n": 4000000, "wall": 600, "opts": {"chunk": 1000}}],
        },
        "rule": ("plan = one path-loss model (general, free space, 3GPP, METIS PS7 LOS/NLOS with 0-5 walls, Okumura-Hata) and 1-12 operations from parameter setters (valid and INVALID values: "
                 "a rejected setter is the only fault-like event), the small-distance policy flag, and evaluations; after every step 18 distances over the model's range (six decades where "
                 "the model allows) as array and scalar. distinct = distinct event-log digests; non-trivial = at least two operations"),
        "assumptions": ["while shadowing is switched on (operation shadow) only the policy relations are asserted: no negative loss unless the model raises, raising only under the raise policy, linear = 10^(-dB/10) in (0,1] for the same draw, inverse queries equal to those with shadowing off; after it is switched off the exact relations must hold again",
                        "the inverse is only asserted where it is offered (general, free space, 3GPP); Okumura-Hata raises NotImplementedError and METIS returns None",
                        "the antenna-gain clause is a pure function and is evaluated once per plan as a side assertion only"],
        "components": {"real": ["pathloss.PathLossGeneral/PathLossFreeSpace/PathLoss3GPP1/PathLossMetisPS7/PathLossOkomuraHata", "antennagain.AntGainBS3GPP25996"],
                       "fake": ["setter scheduler", "numpy's GLOBAL random generator (the library draws the shadowing from it): re-seeded by the world before every query made while shadowing is on"], "stub_or_not_run": []},
    },
    "C15": {
        "measure": '(class, M, last mutator, Gray violated?)',
        "module": "worlds.c15", "level": "exploration",
        "stages": {
            "quick": [{"name": "construct / setPhaseOffset histories", "n": 12000, "wall": 45, "opts": {"chunk": 20}}],
            "thorough": [{"name": "construct / setPhaseOffset histories", "n": 200000, "wall": 600, "opts": {"chunk": 50}}],
        },
        "rule": ("plan = construct PSK(M, phase) for M = 2..2^10 (thorough: 2^12), QAM(M) for M = 4..4^5 (thorough: 4^6), BPSK or QPSK, then 0-6 setPhaseOffset calls; after every step every "
                 "ordered pair of symbols at minimum distance (1e-9 relative) must carry labels differing in exactly one bit. History clause only: the code conversions are pure and not decided here. "
                 "distinct = distinct event-log digests; non-trivial = at least one setPhaseOffset or M >= 16"),
        "assumptions": ["adjacency = symbols at minimum Euclidean distance within 1e-9 relative", "own popcount; binary2gray/gray2binary/count_bit_errors are not under test here", "for M <= 256 the same statement is also checked operationally: label i sent, received exactly on a nearest neighbour, decided by the modulator's own demodulate(); the cost must be one bit"],
        "components": {"real": ["modulators.fundamental.PSK/QAM/BPSK/QPSK"], "fake": ["operation scheduler"], "stub_or_not_run": []},
    },
}


def run(pid, tier, seed, replay=None, quiet=False, plans=None, wall=None, workers=16):
    if pid not in DEFS:
        print("HARNESS-ERROR property=%s is not claimed by this machinery (see MANIFEST.not_applicable)" % pid)
        return 2
    d = DEFS[pid]
    core.use_repo()
    if replay:
        world = core._load_world(d["module"])
        return core.run_replay(world, pid, os.path.abspath(replay), quiet)
    stages = [dict(s) for s in d["stages"][tier]]
    if plans is not None:
        for s in stages:
            s["n"] = plans
    if wall is not None:
        for s in stages:
            s["wall"] = wall
    return core.run_batch(d["module"], pid, tier, seed, stages, workers, level=d["level"], rule=d["rule"],
                          assumptions=d["assumptions"], components=d["components"],
                          extra_cov={"abstract_state_measure": d.get("measure", "")})
