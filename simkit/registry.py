"""Which properties are claimed, with which world, and what is said about them
in MANIFEST.json.  Properties that DESIGN.md claims but whose check is not yet
committed are listed in NOT_CLAIMED_YET so that MANIFEST.not_applicable stays
current at every commit."""

CHECKS = {}

NOT_CLAIMED_YET = {
    pid: "claimed in DESIGN.md (history/crash property, simulation target) but its check is not committed yet; not claimed until it is"
    for pid in ["C03", "C05", "C06", "C07", "C08", "C10", "C13", "C14", "C15"]
}
