"""Which properties are claimed, with which world, and what is said about them
in MANIFEST.json.  Properties that DESIGN.md claims but whose check is not yet
committed are listed in NOT_CLAIMED_YET so that MANIFEST.not_applicable stays
current at every commit."""

CHECKS = {
    "C07": {
        "engine": "simkit", "level": "fault_enumeration", "design_ref": "DESIGN.md section 4 (C07), sections 2.3-2.8",
        "technique": "deterministic simulation with fault injection: real SimulationRunner on a virtual clock and an in-memory crash-consistent disk, seeded crash/kill/IO-error/torn-write at every seam event and source line, restart on surviving state, reference runner as oracle",
        "text": ("Seeded search over crash schedules: thousands of plans per run, each 1-4 process incarnations of the real runner ended by one injected fault "
                 "(hard kill, soft interrupt, OSError, torn write with a surviving prefix) at a seam event (clock read, user callback, disk operation) or at a "
                 "source-line event inside pyphysim/simulations, then a fault-free restart; plus per-scenario sweeps that enumerate EVERY seam event (thorough: "
                 "every line event too) of the scenario's first incarnation. After every incarnation the call trace must equal the reference runner started from "
                 "what the disk durably holds, every partial file must be self-consistent, durably saved work must not disappear, foreign partial files must be refused, "
                 "and the final results (object and file) must hold each repetition exactly once. Evidence, not proof: enumeration is complete only per sampled scenario."),
        "note": ("Trusted: the fakes (SimDisk process-crash semantics: OS-level bytes survive, user-space buffers die on hard kill; no power-loss model), the 60-line reference runner, "
                 "pickle as trusted reader of surviving files, the library's public file-naming helper. Not run: simulate_in_parallel (ipyparallel missing), progress bars."),
    },
    "C05": {
        "engine": "simkit", "level": "exploration", "design_ref": "DESIGN.md section 4 (C05)",
        "technique": "deterministic simulation: scripted user program (skips, stop rules, durations) on virtual clock and simulated disk, histories of simulate calls, call-for-call comparison with a reference runner",
        "text": ("Seeded exploration of programs and histories: grids of 0-3 unpacked parameters (ints, floats, strings, numpy arrays), rep_max incl. around the 500-repetition save period, "
                 "four families of stop rules, arbitrary skip patterns (incl. the first repetition), clock jumps, and histories of simulate()/simulate(i)/rep_max changes. "
                 "Oracle after every call: the exact sequence of parameter combinations handed to the user iteration, runned_reps, the per-variation merge of exactly the successful "
                 "repetitions (unique serial per repetition), every look-up by fixed values for every subset of the unpacked parameters, and the saved results file."),
        "note": "Trusted: reference runner, fakes. No faults are injected here (C07 does). The number of _keep_going calls and all timing are unconstrained by design.",
    },
    "C06": {
        "engine": "simkit", "level": "exploration", "design_ref": "DESIGN.md section 4 (C06)",
        "technique": "deterministic simulation of the accumulation schedule: seeded assignment of observations to accumulators and seeded merge trees, list-of-observations reference model checked after every operation, snapshot comparison of every non-destination object",
        "text": ("Seeded exploration of schedules: which accumulator receives each observation and in which tree the accumulators are merged (contiguous chunks, every association order, "
                 "updates interleaved with merges), for the four result types, accumulation on/off, exact-integer arithmetic (equality is ==) and float arithmetic (1e-9), plus "
                 "merge_all_results/append_all_results histories (incl. into an empty set) and combine_simulation_results over overlapping grids. After EVERY operation every live object "
                 "must equal one-by-one accumulation of the observations it represents, and every object that was not the destination must be bit-identical to its snapshot. "
                 "No faults exist to inject for this property; this is the weakest honest use of the technique (said so in DESIGN.md)."),
        "note": "Trusted: the list model and the snapshot function. Operations are wrapped in a 3 s per-operation timer so that a non-returning call is a verdict, not a hang.",
    },
    "C08": {
        "engine": "simkit", "level": "exploration", "design_ref": "DESIGN.md section 4 (C08)",
        "technique": "deterministic simulation of operation histories on one channel object: seeded scheduler of mutators, cache-populating reads and transmissions, channel/noise RandomState seams re-seeded from the plan, recompute-from-scratch reference model checked after every operation",
        "text": ("Seeded exploration of update/read histories (4-27 operations) on plain and external-interference channels with 1-4 users and unequal antennas. Reads are operations "
                 "in their own right because they populate the lazy caches whose invalidation the property is about. After every read and (every third) mutation all views (H, big_H, "
                 "get_Hkl, get_Hk, big_H_no_ext_int, get_Hk_without_ext_int, pathloss) must equal the raw matrix scaled by the square root of the CURRENT path loss, rebuilt independently "
                 "with np.repeat; transmissions must equal W^H (E x + last_noise) with E the model's current matrix, last_noise None iff noise_var is None, split per receiver by Nr. "
                 "No faults exist to inject for this property."),
        "note": "Trusted: the 15-line model (independent RandomState re-draw for randomize, np.repeat expansion). Tolerance 1e-11 relative on views, 1e-10 on matrix products.",
    },
    "C10": {
        "engine": "simkit", "level": "exploration", "design_ref": "DESIGN.md section 4 (C10)",
        "technique": "deterministic simulation of solver histories: seeded scheduler of solve/setter/read operations, every reachable RandomState re-seeded from the plan, per-iteration monitor wrapped around _step while solve() runs, relations re-checked after every operation",
        "text": ("Seeded exploration of operation histories on the five IA solvers (K=2-4, unequal antennas, 1..min-1 streams, all initialisation modes, 1-60 iterations, scalar/vector power). "
                 "After EVERY operation on which precoders/filters are defined: unit-norm F, |full_F|^2 <= current P (== for all but MMSE), full_W_H H_kk full_F = I (tolerance 1e-8*cond), "
                 "W/W_H conjugate transposes, Ns consistent with shapes, closed form nulls all cross links; while solve() runs the leaked interference after each iteration is recorded "
                 "and must not increase (alt-min, min-leakage, equal powers, no noise). Reads are operations (they populate the caches that the history clause is about)."),
        "note": ("Trusted: the relation checks (numpy), tolerances stated in DESIGN.md; MMSE power tolerance 1e-5 because its Lagrange multiplier comes from scipy's newton with default tolerance. "
                 "Two genuine defects are recorded as known findings (leakage increase under repeated zero eigenvalues; ZeroDivisionError of the noise-free closed form)."),
    },
    "C14": {
        "engine": "simkit", "level": "exploration", "design_ref": "DESIGN.md section 4 (C14)",
        "technique": "deterministic simulation of the generator's internal clock: seeded request/skip histories with clock jumps to 1e10 samples, integer-time reference model evaluated with the generator's phases, checked after every request",
        "text": ("Seeded exploration of request/skip histories on one Jakes generator. The generator IS a clock (float time stepping); skip() is the simulator's clock jump, which makes positions "
                 "up to ~1e10 samples reachable in microseconds, biased towards tiny requests far out where float stepping is most fragile. After every request: exact returned shape, "
                 "every sample within a derived tolerance (0.01 sample of timing error) of the sum-of-sinusoids model at INTEGER sample index k, phases unchanged, |h| <= sqrt(L), zero Doppler static."),
        "note": "Trusted: the 4-line model; the tolerance argument in DESIGN.md section 4 (C14). Phases are snapshotted from the private _phi_l/_psi_l, which the property itself names.",
    },
    "C03": {
        "engine": "simkit", "level": "exploration", "design_ref": "DESIGN.md section 4 (C03)",
        "technique": "deterministic simulation of transmission histories on one channel object: seeded scheduler of time/frequency-domain transmissions, direction switches and path-loss changes, all fading RNGs seeded from the plan, dense double-loop convolution / per-block DFT reference model applied to the response reported after each transmission",
        "text": ("Seeded exploration of 2-15 consecutive operations on one (single- or multi-user, SISO or MIMO) TDL channel object whose fading evolves between transmissions. After EVERY "
                 "transmission the impulse response reported for that transmission is fed to an independent dense reference (double loop in time, per-block DFT in frequency) and must "
                 "reproduce that output (1e-9), with the right length and one response sample per input sample / block; the discretised profile must have unique sorted integer delays "
                 "and merged powers summing to one. Honest scope: most of this property is a function of its inputs; the simulator contributes the history (stale response, direction "
                 "switch and path-loss change between transmissions)."),
        "note": "Trusted: the reference loops (numpy einsum/fft). Convention: response sample j applies to input sample j.",
    },
    "C13": {
        "engine": "simkit", "level": "exploration", "design_ref": "DESIGN.md section 4 (C13)",
        "technique": "deterministic simulation of setter histories on one path-loss model incl. rejected setters, stateless reference formulas / fresh-object reference evaluated from the public current parameters after every step",
        "text": ("Seeded exploration of setter histories (valid and invalid values, policy flag) on every path-loss model. After every step: loss equals the stateless reference evaluated from "
                 "the PUBLIC current parameters (Friis within 0.01 dB for free space n=2, a freshly constructed model for other exponents, the cited formulas for 3GPP/METIS/Hata), dB "
                 "non-decreasing, linear = 10^(-dB/10) in (0,1], inverse queries exact where offered, too-small distances raise or clamp per policy, scalar and array calls agree, a rejected "
                 "setter changes nothing. Honest scope: only PathLossFreeSpace caches a derived value; the history clause is what the simulator adds."),
        "note": "Trusted: the re-implemented formulas. Shadowing never enabled. The antenna-gain clause is evaluated as a side assertion only.",
    },
    "C15": {
        "engine": "simkit", "level": "exploration", "design_ref": "DESIGN.md section 4 (C15)",
        "technique": "deterministic simulation of construct/setPhaseOffset histories with a nearest-neighbour label-adjacency oracle after every step",
        "text": ("History clause only: construct PSK/QAM/BPSK/QPSK, apply 0-6 setPhaseOffset calls, and after every step require that all symbol pairs at minimum distance carry labels differing in "
                 "exactly one bit (all PSK orders 2..2^10, QAM 4..4^5 in the quick tier). Two genuine defects are pinned by existing tests and therefore recorded as known findings "
                 "(PSK.setPhaseOffset, QAM M>=64); anything else (PSK at construction, QAM 4/16, BPSK, QPSK) still raises a VIOLATION. The code conversions and bit counting are pure "
                 "functions and are not decided by this technique."),
        "note": "Trusted: the O(M^2) adjacency oracle with its own popcount.",
    },
}

_PENDING = ["C03", "C06", "C08", "C10", "C13", "C14", "C15"]
NOT_CLAIMED_YET = {
    pid: "claimed in DESIGN.md (history property, simulation target) but its check is not committed yet; not claimed until it is"
    for pid in _PENDING if pid not in CHECKS
}
