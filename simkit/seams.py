"""Fakes for the environment of the Monte Carlo runner: seam-event counter with
fault injection, virtual clock, in-memory disk with process-crash semantics,
and an `os` shim.  Nothing here touches the real file system or real time."""
import errno
import io
import os as _real_os
import posixpath

from .core import HarnessError


class SimCrash(BaseException):
    """The simulated process dies here (BaseException: `except Exception`
    in the code under test must not be able to swallow it)."""


class SimInterrupt(SimCrash, KeyboardInterrupt):
    """A SOFT interruption (Ctrl-C / SIGINT): it reaches the code under test as the KeyboardInterrupt it is in a real
    process, so `except KeyboardInterrupt` handlers and `finally` blocks run with a working disk.  A hard kill stays a
    plain SimCrash and the disk is dead from that instant (whatever a handler writes is lost)."""


class Seams:
    """Numbers every seam event of one incarnation and fires the planned fault.

    fault = {"at": n, "action": "kill_hard"|"kill_soft"|"oserror", "keep": k?}
          | {"line": m, "action": "kill_hard"|"kill_soft"}
    """

    def __init__(self, log, fault=None, record=False):
        self.log = log
        self.fault = fault
        self.record = record
        self.kinds = []
        self.n = 0
        self.line_n = 0
        self.fired = False
        self.fired_kind = None
        self.crashing = False
        self.disk = None
        self.context = None       # filled by the world when the fault fires

    def event(self, kind, *info):
        """Returns None, or the fault dict if a fault is planned at this event
        and the caller (a disk write) wants to apply it itself."""
        if self.crashing:
            return None
        self.n += 1
        self.log.add(kind, *info)
        if self.record:
            self.kinds.append(kind)
        f = self.fault
        if f is not None and not self.fired and f.get("at") == self.n:
            return f
        return None

    def fire(self, kind, f, is_disk_write_path=False):
        """Apply fault f at a non-write seam. Raises."""
        self.fired = True
        self.fired_kind = kind
        action = f.get("action", "kill_soft")
        if action == "oserror" and not is_disk_write_path:
            action = "kill_soft"       # incompatible site (only after shrinking): documented fallback
        if action == "oserror":
            self.log.add("FAULT", "oserror", kind)
            raise OSError(f.get("errno", errno.ENOSPC), "injected I/O error at %s" % kind)
        self.crashing = True
        if action == "kill_hard":
            if self.disk is not None:
                self.disk.dead = True
        self.log.add("FAULT", action, kind)
        raise (SimCrash if action == "kill_hard" else SimInterrupt)("%s at seam event %d (%s)" % (action, self.n, kind))

    def seam(self, kind, *info, write_path=False):
        f = self.event(kind, *info)
        if f is not None:
            self.fire(kind, f, write_path)


class VirtualClock:
    def __init__(self, seams_ref, start=1.0e9, faults=None):
        self.now = float(start)
        self.reads = 0
        self.seams_ref = seams_ref         # callable returning current Seams
        self.faults = {int(f["at_read"]): float(f["jump"]) for f in (faults or [])}
        self.fired = {}

    def read(self):
        self.reads += 1
        j = self.faults.get(self.reads)
        if j is not None:
            self.now += j
            k = "clock-jump" if j >= 0 else "clock-back"
            self.fired[k] = self.fired.get(k, 0) + 1
        s = self.seams_ref()
        if s is not None:
            s.seam("clk", self.reads)
        return self.now


def _norm(path, cwd):
    p = _real_os.fspath(path)
    if isinstance(p, bytes):
        p = p.decode()
    if p.startswith(cwd + "/"):
        p = p[len(cwd) + 1:]
    elif p == cwd:
        p = ""
    p = posixpath.normpath(p) if p else ""
    if p == ".":
        p = ""
    if p.startswith("/") or p.startswith(".."):
        raise HarnessError("path outside the simulated working directory: %r" % (path,))
    return p


class SimFile:
    """Write handle: user-space buffer in front of the committed file bytes."""

    def __init__(self, disk, path, text, bufsize):
        self.disk = disk
        self.path = path
        self.text = text
        self.bufsize = bufsize          # None = unbounded
        self.buf = bytearray()
        self.closed = False

    def __enter__(self):
        return self

    def __exit__(self, *a):
        self.close()
        return False

    def writable(self):
        return True

    def fileno(self):
        return 1000

    def _commit(self, data, final=False):
        """One 'raw write' of `data` to the committed file = one seam event."""
        if not data:
            return
        d = self.disk
        s = d.seams()
        f = s.event("disk:write", self.path, len(data)) if s is not None else None
        if f is not None:
            s.fired = True
            s.fired_kind = "disk:write"
            keep = f.get("keep", 0)
            if isinstance(keep, float):
                k = int(keep * len(data))
            elif keep < 0:
                k = max(0, len(data) + keep)
            else:
                k = min(int(keep), len(data))
            d.files[self.path].extend(data[:k])
            d.bump("torn@write")
            s.context = {"torn_keep": k, "torn_of": len(data)}
            action = f.get("action", "kill_hard")
            s.log.add("FAULT", "torn", action, k, len(data))
            if action == "oserror":
                raise OSError(f.get("errno", errno.ENOSPC), "injected short write (%d of %d)" % (k, len(data)))
            s.crashing = True
            if action == "kill_hard":
                d.dead = True
            raise SimCrash("torn write %d/%d on %s" % (k, len(data), self.path))
        d.files[self.path].extend(data)
        d.touch(self.path)

    def write(self, data):
        if self.closed:
            raise ValueError("write to closed file")
        if self.text:
            if not isinstance(data, str):
                raise TypeError("write() argument must be str")
            b = data.encode("utf-8")
        else:
            b = bytes(data)
        if self.disk.dead:
            return len(data)
        self.buf.extend(b)
        if self.bufsize is not None and len(self.buf) > self.bufsize:
            # like BufferedWriter: flush what overflowed, in bufsize-sized raw writes
            while len(self.buf) > self.bufsize:
                chunk = bytes(self.buf[: max(1, self.bufsize)])
                del self.buf[: max(1, self.bufsize)]
                self._commit(chunk)
        return len(data)

    def flush(self):
        if self.disk.dead or self.closed:
            return
        data = bytes(self.buf)
        self.buf = bytearray()
        self._commit(data)

    def close(self):
        if self.closed:
            return
        d = self.disk
        if d.dead:                       # SIGKILL: user-space buffer is gone
            self.closed = True
            self.buf = bytearray()
            return
        s = d.seams()
        try:
            if s is not None and not s.crashing:
                s.seam("disk:close:pre", self.path, write_path=True)
            data = bytes(self.buf)
            self.buf = bytearray()
            self._commit(data, final=True)
        finally:
            self.closed = True
        if d.on_commit is not None and not d.dead and not (s is not None and s.crashing):
            d.on_commit(self.path)
        if s is not None and not s.crashing:
            s.seam("disk:close:post", self.path)


class SimDisk:
    def __init__(self, seams_ref, cwd, bufsize=8192):
        self.seams = seams_ref
        self.cwd = cwd
        self.files = {}                  # normalised path -> bytearray (committed = survives process death)
        self.mtimes = {}                 # normalised path -> modification stamp (monotone counter, not wall time)
        self._stamp = 0
        self.dirs = {""}
        self.dead = False
        self.bufsize = bufsize
        self.counts = {}
        self.on_commit = None            # observer: called with the path whenever a complete file became durable
        self.problem = None              # set when the code used something the fake does not model

    def bump(self, k):
        self.counts[k] = self.counts.get(k, 0) + 1

    def touch(self, p):
        self._stamp += 1
        self.mtimes[p] = 1.0e9 + self._stamp

    def getmtime(self, path):
        p = _norm(path, self.cwd)
        if p not in self.files and p not in self.dirs:
            raise FileNotFoundError(errno.ENOENT, "No such file or directory", str(path))
        return self.mtimes.get(p, 1.0e9)

    def stat(self, path, *a, **k):
        p = _norm(path, self.cwd)
        if p not in self.files and p not in self.dirs:
            raise FileNotFoundError(errno.ENOENT, "No such file or directory", str(path))
        import types
        return types.SimpleNamespace(st_mtime=self.mtimes.get(p, 1.0e9), st_size=len(self.files.get(p, b"")),
                                     st_mtime_ns=int(self.mtimes.get(p, 1.0e9) * 1e9), st_mode=0o100644 if p in self.files else 0o040755)

    # ---- builtin open ---------------------------------------------------
    def open(self, path, mode="r", *args, **kw):
        p = _norm(path, self.cwd)
        s = self.seams()
        if mode in ("rb", "r", "rt"):
            if s is not None:
                s.seam("disk:open:r", p)
            if p not in self.files:
                raise FileNotFoundError(errno.ENOENT, "No such file or directory", str(path))
            data = bytes(self.files[p])
            if mode == "rb":
                return io.BytesIO(data)
            return io.StringIO(data.decode("utf-8"))
        if mode in ("wb", "w", "wt", "xb", "x", "xt"):
            if s is not None:
                s.seam("disk:open:w:pre", p, write_path=True)
            parent = posixpath.dirname(p)
            if parent not in self.dirs:
                raise FileNotFoundError(errno.ENOENT, "No such file or directory", str(path))
            if mode[0] == "x" and (p in self.files or p in self.dirs):
                raise FileExistsError(errno.EEXIST, "File exists", str(path))
            if p in self.dirs:
                raise IsADirectoryError(errno.EISDIR, "Is a directory", str(path))
            self.files[p] = bytearray()           # O_TRUNC happens at open
            self.touch(p)
            fh = SimFile(self, p, mode not in ("wb", "xb"), self.bufsize)
            if s is not None:
                s.seam("disk:open:w:post", p)
            return fh
        self.problem = "open() mode %r is not modelled by SimDisk" % (mode,)
        raise HarnessError(self.problem)

    # ---- os functions -----------------------------------------------------
    def mkdir(self, path, mode=0o777):
        p = _norm(path, self.cwd)
        s = self.seams()
        if s is not None:
            s.seam("disk:mkdir:pre", p, write_path=True)
        if p in self.dirs or p in self.files:
            raise FileExistsError(errno.EEXIST, "File exists", str(path))
        if posixpath.dirname(p) not in self.dirs:
            raise FileNotFoundError(errno.ENOENT, "No such file or directory", str(path))
        self.dirs.add(p)
        if s is not None:
            s.seam("disk:mkdir:post", p)

    def makedirs(self, path, mode=0o777, exist_ok=False):
        p = _norm(path, self.cwd)
        s = self.seams()
        if s is not None:
            s.seam("disk:mkdir:pre", p, write_path=True)
        if p in self.dirs:
            if not exist_ok:
                raise FileExistsError(errno.EEXIST, "File exists", str(path))
            return
        parts = p.split("/")
        for i in range(1, len(parts) + 1):
            self.dirs.add("/".join(parts[:i]))
        if s is not None:
            s.seam("disk:mkdir:post", p)

    def remove(self, path, *a, **kw):
        p = _norm(path, self.cwd)
        s = self.seams()
        if s is not None:
            s.seam("disk:remove:pre", p)
        if p not in self.files:
            raise FileNotFoundError(errno.ENOENT, "No such file or directory", str(path))
        del self.files[p]
        if s is not None:
            s.seam("disk:remove:post", p)

    def replace(self, src, dst, *a, **kw):
        a_, b_ = _norm(src, self.cwd), _norm(dst, self.cwd)
        s = self.seams()
        if s is not None:
            s.seam("disk:replace:pre", a_, b_, write_path=True)
        if a_ not in self.files:
            raise FileNotFoundError(errno.ENOENT, "No such file or directory", str(src))
        if posixpath.dirname(b_) not in self.dirs:
            raise FileNotFoundError(errno.ENOENT, "No such file or directory", str(dst))
        self.files[b_] = self.files.pop(a_)       # atomic
        self.mtimes[b_] = self.mtimes.pop(a_, 1.0e9)
        if self.on_commit is not None:
            self.on_commit(b_)
        if s is not None:
            s.seam("disk:replace:post", a_, b_)

    def exists(self, path):
        p = _norm(path, self.cwd)
        return p in self.files or p in self.dirs

    def isfile(self, path):
        return _norm(path, self.cwd) in self.files

    def isdir(self, path):
        return _norm(path, self.cwd) in self.dirs

    def listdir(self, path="."):
        p = _norm(path, self.cwd)
        if p not in self.dirs:
            raise FileNotFoundError(errno.ENOENT, "No such file or directory", str(path))
        out = set()
        pre = p + "/" if p else ""
        for q in list(self.files) + list(self.dirs):
            if q and q.startswith(pre) and q != p:
                out.add(q[len(pre):].split("/")[0])
        return sorted(out)

    def getsize(self, path):
        p = _norm(path, self.cwd)
        if p not in self.files:
            raise FileNotFoundError(errno.ENOENT, "No such file or directory", str(path))
        return len(self.files[p])


_PURE_OS = {"sep", "linesep", "fspath", "curdir", "pardir", "extsep", "altsep", "pathsep", "name",
            "PathLike", "error", "devnull", "O_RDONLY", "getpid", "fsencode", "fsdecode", "strerror"}
_PURE_PATH = {"join", "splitext", "basename", "dirname", "split", "normpath", "sep", "isabs",
              "expanduser", "expandvars", "commonprefix", "commonpath", "splitdrive", "normcase", "relpath"}


class _PathShim:
    def __init__(self, disk):
        self._d = disk

    def exists(self, p):
        return self._d.exists(p)

    def isfile(self, p):
        return self._d.isfile(p)

    def isdir(self, p):
        return self._d.isdir(p)

    def getsize(self, p):
        return self._d.getsize(p)

    def getmtime(self, p):
        return self._d.getmtime(p)

    def abspath(self, p):
        return posixpath.normpath(posixpath.join(self._d.cwd, _real_os.fspath(p)))

    realpath = abspath

    def __getattr__(self, name):
        if name in _PURE_PATH:
            return getattr(posixpath, name)
        self._d.problem = "os.path.%s is not modelled by the os shim" % name
        raise AttributeError(self._d.problem)


class OsShim:
    """Stands in for the `os` module inside pyphysim.simulations.*"""

    def __init__(self, disk):
        self._d = disk
        self.path = _PathShim(disk)

    def mkdir(self, *a, **k):
        return self._d.mkdir(*a, **k)

    def makedirs(self, *a, **k):
        return self._d.makedirs(*a, **k)

    def remove(self, *a, **k):
        return self._d.remove(*a, **k)

    unlink = remove

    def replace(self, *a, **k):
        return self._d.replace(*a, **k)

    rename = replace

    def listdir(self, *a, **k):
        return self._d.listdir(*a, **k)

    def getcwd(self):
        return self._d.cwd

    def stat(self, *a, **k):
        return self._d.stat(*a, **k)

    def fsync(self, fd):
        s = self._d.seams()
        if s is not None:
            s.seam("disk:fsync")

    def __getattr__(self, name):
        if name in _PURE_OS:
            return getattr(_real_os, name)
        self._d.problem = "os.%s is not modelled by the os shim" % name
        raise AttributeError(self._d.problem)
