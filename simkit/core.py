"""simkit core: seeds, event log, batch runner, minimiser, replay, evidence.

Everything a run does is a pure function of its *plan* (a JSON document) and of
the code under $VERIF_REPO (default /repo).  A plan is derived from one integer:

    VERIF_SEED --sha256("<seed>/<property>/<index>")--> per-run seed
               --random.Random(per-run seed)---------> plan (concrete arguments)

Nothing in this file draws random numbers or reads a clock while a plan
executes; wall-clock is read only by the batch driver to honour its budget.
"""
import faulthandler
import hashlib
import json
import multiprocessing
import os
import random
import subprocess
import sys
import time
import traceback

VERIF_DIR = os.path.dirname(os.path.dirname(os.path.abspath(__file__)))
OUT_DIR = os.environ.get("VERIF_OUT", VERIF_DIR)     # evidence/ and replays/ go here (mutant self-test redirects it)
REPO = os.environ.get("VERIF_REPO", "/repo")


# --------------------------------------------------------------------------
# repo on sys.path (never the site-packages copy)
# --------------------------------------------------------------------------
def use_repo():
    if sys.path[0] != REPO:
        sys.path.insert(0, REPO)
    import pyphysim
    real = os.path.realpath(pyphysim.__file__)
    if not real.startswith(os.path.realpath(REPO) + os.sep):
        raise HarnessError("pyphysim imported from %s, not from %s" % (real, REPO))
    return pyphysim


class HarnessError(Exception):
    """The machinery (not the repository) is at fault."""


# --------------------------------------------------------------------------
# seeds
# --------------------------------------------------------------------------
def derive_seed(master, pid, index, salt=""):
    h = hashlib.sha256(("%d/%s/%d/%s" % (master, pid, index, salt)).encode()).hexdigest()
    return int(h[:16], 16)


# --------------------------------------------------------------------------
# event log: global monotone sequence number, kind, digest-able payload
# --------------------------------------------------------------------------
def _canon(x):
    """Canonical, hash-seed independent text for digests."""
    import numpy as np
    if isinstance(x, dict):
        return "{" + ",".join("%s:%s" % (_canon(k), _canon(x[k])) for k in sorted(x, key=repr)) + "}"
    if isinstance(x, (list, tuple)):
        return "[" + ",".join(_canon(i) for i in x) + "]"
    if isinstance(x, (set, frozenset)):
        return "{" + ",".join(sorted(_canon(i) for i in x)) + "}"
    if isinstance(x, np.ndarray):
        return "nd%s:%s" % (x.shape, hashlib.sha256(np.ascontiguousarray(x).tobytes()).hexdigest()[:16])
    if isinstance(x, (np.generic,)):
        return repr(x.item())
    if isinstance(x, float):
        return repr(x)
    if isinstance(x, complex):
        return repr(x)
    if isinstance(x, bytes):
        return "b%d:%s" % (len(x), hashlib.sha256(x).hexdigest()[:16])
    return repr(x)


class EventLog:
    __slots__ = ("seq", "_h", "tail", "keep")

    def __init__(self, keep=0):
        self.seq = 0
        self._h = hashlib.sha256()
        self.keep = keep
        self.tail = []

    def add(self, kind, *payload):
        self.seq += 1
        line = "%d|%s|%s" % (self.seq, kind, _canon(payload))
        self._h.update(line.encode())
        self._h.update(b"\n")
        if self.keep:
            self.tail.append(line)
            if len(self.tail) > self.keep:
                del self.tail[0]
        return self.seq

    def digest(self):
        return self._h.hexdigest()


# --------------------------------------------------------------------------
# result of executing one plan
# --------------------------------------------------------------------------
def new_result():
    return {
        "status": "ok",            # ok | violation | harness_error
        "violations": [],          # [{invariant, step, detail, signature}]
        "digest": "",
        "faults": {},              # fault kind -> times it actually fired
        "probes": {},              # rare-condition probes hit
        "state_keys": [],          # abstract states reached (per-world measure)
        "nontrivial": False,
        "steps": 0,
        "sim_time": 0.0,
    }


def add_violation(res, invariant, step, detail, signature=None, cap=6):
    res["status"] = "violation"
    if len(res["violations"]) < cap:
        res["violations"].append({
            "invariant": invariant, "step": step,
            "detail": str(detail)[:600], "signature": signature or {}})


def bump(d, k, n=1):
    d[k] = d.get(k, 0) + n


def vkey(v):
    """Violation class = invariant + signature (what known-findings match on)."""
    return v["invariant"] + "|" + json.dumps(v.get("signature") or {}, sort_keys=True)


# --------------------------------------------------------------------------
# known findings
# --------------------------------------------------------------------------
def load_known_findings():
    p = os.path.join(VERIF_DIR, "known_findings.json")
    if not os.path.exists(p):
        return []
    with open(p) as f:
        return json.load(f)


def match_known(pid, violation, findings):
    """A violation matches an entry iff property, invariant and EVERY key of
    the entry's signature match.  'fixed' entries never suppress."""
    sig = violation.get("signature") or {}
    for e in findings:
        if e.get("status") != "known" or e.get("property") != pid:
            continue
        if e.get("invariant") != violation["invariant"]:
            continue
        ok = True
        for k, want in (e.get("signature") or {}).items():
            have = sig.get(k, None)
            if k.endswith("_min"):
                base = k[:-4]
                if sig.get(base) is None or sig.get(base) < want:
                    ok = False
            elif isinstance(want, list):
                if have not in want:
                    ok = False
            elif have != want:
                ok = False
        if ok:
            return e
    return None


# --------------------------------------------------------------------------
# worker side
# --------------------------------------------------------------------------
_WORLD = None
_CUR_FILE = None


def _load_world(modname):
    global _WORLD
    import importlib
    _WORLD = importlib.import_module(modname)
    return _WORLD


class PlanTimeout(BaseException):
    pass


def _on_alarm(signum, frame):
    raise PlanTimeout()


class OpTimeout(Exception):
    """A single library operation did not return (turns a hang into a verdict)."""


class op_time_limit:
    """with op_time_limit(3.0): <one library call>  -- nests inside the per-plan timer."""

    def __init__(self, sec):
        self.sec = sec

    def __enter__(self):
        import signal
        self.old = signal.getsignal(signal.SIGALRM)
        self.remaining = signal.getitimer(signal.ITIMER_REAL)[0]
        self.t0 = time.time()
        sec = self.sec

        def h(signum, frame):
            raise OpTimeout("operation did not return within %g s" % sec)
        signal.signal(signal.SIGALRM, h)
        signal.setitimer(signal.ITIMER_REAL, sec)
        return self

    def __exit__(self, *a):
        import signal
        signal.setitimer(signal.ITIMER_REAL, 0)
        signal.signal(signal.SIGALRM, self.old if self.old is not None else signal.SIG_DFL)
        if self.remaining > 0:
            signal.setitimer(signal.ITIMER_REAL, max(0.01, self.remaining - (time.time() - self.t0)))
        return False


def execute_guarded(world, plan, limit=None):
    """Run one plan; classify anything unexpected as a harness error.  A plan
    that does not finish within `limit` wall seconds is a harness error too
    (step caps inside the worlds turn real non-termination into violations)."""
    import signal
    limit = limit or float(os.environ.get("VERIF_PLAN_TIMEOUT", "120"))
    old = None
    try:
        old = signal.signal(signal.SIGALRM, _on_alarm)
        signal.setitimer(signal.ITIMER_REAL, limit)
    except ValueError:
        old = None
    try:
        res = world.execute(plan)
    except PlanTimeout:
        res = new_result()
        res["status"] = "harness_error"
        res["detail"] = "plan did not finish within %.0f s wall" % limit
    except HarnessError as e:
        res = new_result()
        res["status"] = "harness_error"
        res["detail"] = "HarnessError: %s" % e
    except Exception:
        res = new_result()
        res["status"] = "harness_error"
        res["detail"] = traceback.format_exc()[-1500:]
    finally:
        if old is not None:
            signal.setitimer(signal.ITIMER_REAL, 0)
            signal.signal(signal.SIGALRM, old)
    return res


WORKER_EXIT_HOOKS = []


def _chunk_job(args):
    (modname, pid, tier, master, indices, deadline, opts) = args
    world = _WORLD if (_WORLD is not None and _WORLD.__name__ == modname) else _load_world(modname)
    faulthandler.enable()
    import warnings
    warnings.simplefilter("ignore")
    agg = {"evaluations": 0, "faults": {}, "probes": {}, "states": {}, "digests_nt": set(),
           "digests_all": 0, "steps": 0, "sim_time": 0.0, "samples": [], "bad": [],
           "harness": [], "nontrivial": 0, "gen_fail": 0}
    for idx in indices:
        if time.time() > deadline:
            break
        seed = derive_seed(master, pid, idx)
        rng = random.Random(seed)
        try:
            plan = world.gen_plan(rng, tier, idx, opts)
        except Exception:
            agg["harness"].append({"index": idx, "seed": seed, "detail": "gen_plan: " + traceback.format_exc()[-1500:]})
            continue
        if plan is None:
            agg["gen_fail"] += 1
            continue
        plan["property"] = pid
        plan["seed"] = seed
        plan["index"] = idx
        plan["tier"] = tier
        if _CUR_FILE:
            try:
                with open(_CUR_FILE, "w") as fcur:
                    json.dump(plan, fcur)
            except Exception:       # noqa: BLE001
                pass
        lim_ = float(opts.get("plan_timeout") or os.environ.get("VERIF_PLAN_TIMEOUT", "120"))
        faulthandler.dump_traceback_later(lim_ + 30, exit=True)     # last resort when the code is stuck inside C and no signal handler can run
        try:
            res = execute_guarded(world, plan, opts.get("plan_timeout"))
        finally:
            faulthandler.cancel_dump_traceback_later()
        agg["evaluations"] += int(res.get("evaluations", 1))
        agg["steps"] += res.get("steps", 0)
        agg["sim_time"] += res.get("sim_time", 0.0)
        for k, v in res.get("faults", {}).items():
            bump(agg["faults"], k, v)
        for k, v in res.get("probes", {}).items():
            bump(agg["probes"], k, v)
        for k in res.get("state_keys", []):
            bump(agg["states"], k)
        if res.get("nontrivial"):
            agg["nontrivial"] += int(res.get("evaluations", 1))
            for dg in (res.get("digests") or [res["digest"][:24]]):
                agg["digests_nt"].add(dg)
        if res["status"] == "violation":
            if len(agg["bad"]) < 40:
                agg["bad"].append({"plan": res.get("failing_plan") or plan, "violations": res["violations"]})
            else:
                agg["bad"].append({"plan": None, "violations": res["violations"], "index": idx})
        elif res["status"] == "harness_error":
            if len(agg["harness"]) < 5:
                agg["harness"].append({"index": idx, "seed": seed, "detail": res.get("detail", ""), "plan": plan})
        if len(agg["samples"]) < 2 and res.get("nontrivial") and res["status"] == "ok":
            agg["samples"].append(plan)
    return agg


# --------------------------------------------------------------------------
# process pool: plain fork, static round-robin assignment of chunks, one result
# file per worker.  No shared queues or locks (a ProcessPoolExecutor was seen to
# dead-lock once, parent and idle workers all waiting on one semaphore).
# --------------------------------------------------------------------------
def _merge_aggs(a, b):
    for k in ("evaluations", "steps", "sim_time", "nontrivial", "gen_fail", "digests_all"):
        a[k] = a.get(k, 0) + b.get(k, 0)
    for k in ("faults", "probes", "states"):
        for kk, vv in b[k].items():
            bump(a[k], kk, vv)
    a["digests_nt"] |= b["digests_nt"]
    if len(a["samples"]) < 2:
        a["samples"].extend(b["samples"][: 2 - len(a["samples"])])
    a["bad"].extend(b["bad"][: max(0, 60 - len(a["bad"]))] if len(a["bad"]) < 60 else [dict(x, plan=None) for x in b["bad"]])
    a["harness"].extend(b["harness"][: max(0, 5 - len(a["harness"]))])
    return a


def run_forked(jobs, workers, hard_timeout):
    """Returns (list of per-worker aggregates, error text or None)."""
    import pickle
    import shutil
    import signal
    import tempfile
    workers = max(1, min(workers, len(jobs)))
    d = tempfile.mkdtemp(prefix="verif-pool-%d-" % os.getpid(), dir="/dev/shm" if os.path.isdir("/dev/shm") else None)
    pids = {}
    sys.stdout.flush()
    sys.stderr.flush()
    try:
        for w in range(workers):
            pid = os.fork()
            if pid == 0:
                code = 1
                try:
                    try:        # a torn pickle can ask for absurd allocations: fail fast instead of swapping
                        import resource
                        lim = 8 * 1024 ** 3
                        soft, hard = resource.getrlimit(resource.RLIMIT_AS)
                        if soft == resource.RLIM_INFINITY or soft > lim:
                            resource.setrlimit(resource.RLIMIT_AS, (lim, hard))
                    except Exception:       # noqa: BLE001
                        pass
                    global _CUR_FILE
                    _CUR_FILE = os.path.join(d, "w%d.cur" % w)
                    agg = None
                    for j in jobs[w::workers]:
                        r = _chunk_job(j)
                        agg = r if agg is None else _merge_aggs(agg, r)
                    tmp = os.path.join(d, "w%d.tmp" % w)
                    with open(tmp, "wb") as f:
                        pickle.dump(agg, f)
                    os.replace(tmp, os.path.join(d, "w%d.pkl" % w))
                    code = 0
                except BaseException:      # noqa: B902
                    try:
                        traceback.print_exc()
                    except Exception:       # noqa: BLE001
                        pass
                finally:
                    try:
                        for fn in WORKER_EXIT_HOOKS:       # os._exit skips atexit: scratch directories are removed here
                            try:
                                fn()
                            except Exception:       # noqa: BLE001
                                pass
                        sys.stdout.flush()
                        sys.stderr.flush()
                    finally:
                        os._exit(code)
            pids[pid] = w
        deadline = time.time() + hard_timeout
        err = None
        left = dict(pids)
        while left and time.time() < deadline:
            try:
                pid, status = os.waitpid(-1, os.WNOHANG)
            except ChildProcessError:
                break
            if pid == 0:
                time.sleep(0.05)
                continue
            if pid in left:
                w = left.pop(pid)
                if status != 0 and err is None:
                    err = "worker %d ended with status %d" % (w, status)
                    cur = os.path.join(d, "w%d.cur" % w)
                    if os.path.exists(cur):
                        keep = os.path.join(OUT_DIR, "replays", "stuck_plan_%d.json" % os.getpid())
                        os.makedirs(os.path.dirname(keep), exist_ok=True)
                        shutil.copy(cur, keep)
                        err += " while executing the plan saved as %s" % keep
        if left:
            err = err or "%d worker(s) still running after %.0f s; killed" % (len(left), hard_timeout)
            for pid, w in left.items():
                cur = os.path.join(d, "w%d.cur" % w)
                if os.path.exists(cur):
                    keep = os.path.join(OUT_DIR, "replays", "stuck_plan_%d_w%d.json" % (os.getpid(), w))
                    os.makedirs(os.path.dirname(keep), exist_ok=True)
                    shutil.copy(cur, keep)
                    err += "; worker %d was executing the plan saved as %s" % (w, keep)
            for pid in left:
                try:
                    os.kill(pid, signal.SIGKILL)
                except OSError:
                    pass
            for pid in left:
                try:
                    os.waitpid(pid, 0)
                except OSError:
                    pass
        aggs = []
        for w in range(workers):
            f = os.path.join(d, "w%d.pkl" % w)
            if os.path.exists(f):
                with open(f, "rb") as fh:
                    a = pickle.load(fh)
                if a is not None:
                    aggs.append(a)
            elif err is None:
                err = "worker %d left no result" % w
        return aggs, err
    finally:
        shutil.rmtree(d, ignore_errors=True)


# --------------------------------------------------------------------------
# minimiser: greedy over world.shrink(plan) candidates, same violation class
# --------------------------------------------------------------------------
def still_fails(world, plan, target_key, loose=False):
    res = execute_guarded(world, plan)
    if res["status"] != "violation":
        return None
    for v in res["violations"]:
        if vkey(v) == target_key or (loose and v["invariant"] == target_key.split("|")[0]):
            return v
    return None


def minimise(world, plan, target_key, budget_s=45.0, max_exec=4000):
    t0 = time.time()
    best = plan
    execs = 0
    progress = True
    while progress and time.time() - t0 < budget_s and execs < max_exec:
        progress = False
        for cand in world.shrink(best):
            execs += 1
            if time.time() - t0 > budget_s or execs > max_exec:
                break
            if still_fails(world, cand, target_key) is not None:
                best = cand
                progress = True
                break
    return best, execs


# generic shrink helpers ---------------------------------------------------
def ddmin_candidates(lst, min_len=0):
    """Candidates with chunks removed: halves first, then single elements."""
    n = len(lst)
    if n <= min_len:
        return
    chunk = n // 2
    while chunk >= 1:
        for start in range(0, n, chunk):
            cand = lst[:start] + lst[start + chunk:]
            if len(cand) >= min_len and len(cand) < n:
                yield cand
        if chunk == 1:
            break
        chunk //= 2


def shrink_int(v, lo=0):
    """Smaller integers to try in place of v (towards lo)."""
    seen = set()
    for c in (lo, lo + 1, v // 2, v - 1):
        if lo <= c < v and c not in seen:
            seen.add(c)
            yield c


# --------------------------------------------------------------------------
# replay (fresh interpreter)
# --------------------------------------------------------------------------
def write_replay(pid, plan, violation, extra=None):
    d = os.path.join(OUT_DIR, "replays", pid)
    os.makedirs(d, exist_ok=True)
    doc = dict(plan)
    doc["violation"] = violation
    if extra:
        doc["minimised_from"] = extra
    name = "%s_%s.json" % (violation["invariant"].replace("/", "_"), plan.get("seed", 0))
    path = os.path.join(d, name)
    with open(path, "w") as f:
        json.dump(doc, f, indent=1, sort_keys=True)
        f.write("\n")
    return path


def replay_in_fresh_interpreter(pid, path, timeout=300):
    """Returns (reproduced: bool, output)."""
    env = dict(os.environ)
    cmd = [sys.executable, os.path.join(VERIF_DIR, "check"), pid, "--replay", path, "--quiet"]
    try:
        p = subprocess.run(cmd, env=env, capture_output=True, text=True, timeout=timeout, cwd=VERIF_DIR)
    except subprocess.TimeoutExpired:
        return False, "replay timed out"
    return p.returncode == 1 and "REPRODUCED" in p.stdout, p.stdout[-2000:] + p.stderr[-2000:]


def run_replay(world, pid, path, quiet=False):
    import warnings
    warnings.simplefilter("ignore")
    with open(path) as f:
        plan = json.load(f)
    want = plan.get("violation")
    if "sequence" in plan:
        # a violation that needs what EARLIER plans left behind in the process (class-level or module-level state of the code
        # under test): the replay is the sequence of plans one worker executed, regenerated from (seed, property, index)
        sq = plan["sequence"]
        res = None
        for idx in sq["indices"]:
            seed = derive_seed(sq["master"], pid, idx)
            pl = world.gen_plan(random.Random(seed), sq["tier"], idx, sq.get("opts") or {})
            if pl is None:
                continue
            pl["property"], pl["seed"], pl["index"], pl["tier"] = pid, seed, idx, sq["tier"]
            res = execute_guarded(world, pl, (sq.get("opts") or {}).get("plan_timeout"))
        if res is None:
            print("NOT-REPRODUCED property=%s replay=%s (empty sequence)" % (pid, path))
            return 0
    else:
        res = execute_guarded(world, plan)
    if res["status"] == "harness_error":
        print("HARNESS-ERROR during replay: %s" % res.get("detail"))
        return 2
    if res["status"] != "violation":
        print("NOT-REPRODUCED property=%s replay=%s (plan held)" % (pid, path))
        return 0
    hit = None
    for v in res["violations"]:
        if want is None or vkey(v) == vkey(want):
            hit = v
            break
    if hit is None:
        hit = res["violations"][0]
        print("DIFFERENT-VIOLATION property=%s replay=%s got=%s" % (pid, path, hit["invariant"]))
    print("REPRODUCED property=%s invariant=%s step=%s digest=%s" % (pid, hit["invariant"], hit["step"], res["digest"][:16]))
    if not quiet:
        print("  detail: %s" % hit["detail"])
        print("  signature: %s" % json.dumps(hit.get("signature")))
    return 1


# --------------------------------------------------------------------------
# batch driver
# --------------------------------------------------------------------------
def run_batch(modname, pid, tier, master, stages, workers, level="exploration",
              rule="", assumptions=None, components=None, extra_cov=None, min_budget=40.0):
    """stages = [{"name":, "n": plans, "wall": seconds, "opts": {...}}].  Runs every
    stage (each stops at its wall cap), minimises and reports violations,
    writes evidence.  Returns the process exit code."""
    t0 = time.time()
    import warnings
    warnings.simplefilter("ignore")
    use_repo()
    world = _load_world(modname)          # imported in the parent: forked workers share it
    if hasattr(world, "warm_up"):
        world.warm_up()
    total = {"evaluations": 0, "faults": {}, "probes": {}, "states": {}, "digests_nt": set(),
             "steps": 0, "sim_time": 0.0, "samples": [], "bad": [], "harness": [], "nontrivial": 0, "gen_fail": 0}
    pool_broken = None
    n_plans = 0
    stage_report = []
    for si, st in enumerate(stages):
        opts = dict(st.get("opts") or {})
        ts = time.time()
        deadline = ts + st["wall"]
        chunk = max(1, int(opts.get("chunk", 50)))
        base = si * 10 ** 7
        jobs = []
        for start in range(0, st["n"], chunk):
            jobs.append((modname, pid, tier, master, list(range(base + start, base + min(st["n"], start + chunk))), deadline, opts))
        n_plans += st["n"]
        hard_timeout = st["wall"] + max(240, float(opts.get("plan_timeout", 0)) + 60)
        # (no faulthandler watchdog in the parent: its thread state would be inherited, dead, by the forked workers;
        #  run_forked enforces the hard deadline itself and kills stragglers)
        ev_before = total["evaluations"]
        aggs, pool_broken = run_forked(jobs, workers, hard_timeout)
        for agg in aggs:
            total["evaluations"] += agg["evaluations"]
            total["steps"] += agg["steps"]
            total["sim_time"] += agg["sim_time"]
            total["nontrivial"] += agg["nontrivial"]
            total["gen_fail"] += agg["gen_fail"]
            for k, v in agg["faults"].items():
                bump(total["faults"], k, v)
            for k, v in agg["probes"].items():
                bump(total["probes"], k, v)
            for k, v in agg["states"].items():
                bump(total["states"], k, v)
            total["digests_nt"] |= agg["digests_nt"]
            if len(total["samples"]) < 2 * (si + 1):
                total["samples"].extend(agg["samples"][:1])
            total["bad"].extend(agg["bad"])
            total["harness"].extend(agg["harness"])
        stage_report.append({"stage": st.get("name", str(si)), "plans_requested": st["n"],
                             "executions": total["evaluations"] - ev_before, "wall_s": round(time.time() - ts, 2)})
        if pool_broken:
            break
    opts = {"min_budget": min_budget}
    faulthandler.cancel_dump_traceback_later()
    explore_s = time.time() - t0

    # ---- classify violations ------------------------------------------------
    findings = load_known_findings()
    classes = {}                           # vkey -> {"v":..., "plans":[...], "count":n}
    for b in total["bad"]:
        for v in b["violations"]:
            c = classes.setdefault(vkey(v), {"v": v, "plans": [], "count": 0})
            c["count"] += 1
            if b["plan"] is not None and len(c["plans"]) < 3:
                c["plans"].append(b["plan"])
    exit_code = 0
    out_lines = []
    known_hit = {}
    unknown = []
    for key in sorted(classes):
        c = classes[key]
        e = match_known(pid, c["v"], findings)
        if e is not None:
            kh = known_hit.setdefault(json.dumps(e, sort_keys=True), {"entry": e, "count": 0, "example": None})
            kh["count"] += c["count"]
            if kh["example"] is None and c["plans"]:
                kh["example"] = (c["plans"][0], key)
        else:
            unknown.append((key, c))
    violations_reported = 0
    minimised_examples = []
    focus = os.environ.get("VERIF_FOCUS")
    if focus:
        unknown.sort(key=lambda kc: (0 if all(f in kc[0] for f in focus.split("&")) else 1, kc[0]))
    # classes for which a worker kept a plan come first: each worker keeps the plans of its first 40 violating executions only,
    # and a class without a kept plan cannot be minimised or replayed (it is still counted, and never turns the verdict to HELD)
    unknown.sort(key=lambda kc: 0 if kc[1]["plans"] else 1)
    for key, c in unknown[:6]:
        if not c["plans"]:
            continue
        plan = min(c["plans"], key=lambda p: len(json.dumps(p)))
        orig_size = len(json.dumps(plan))
        best, execs = minimise(world, plan, key, budget_s=float(opts.get("min_budget", 40.0)) / (1 + len(minimised_examples)))
        v = still_fails(world, best, key) or c["v"]
        path = write_replay(pid, best, v, {"plan_bytes": orig_size, "min_bytes": len(json.dumps(best)), "shrink_execs": execs})
        ok, txt = replay_in_fresh_interpreter(pid, path)
        if ok:
            out_lines.append("VIOLATION property=%s replay=%s" % (pid, path))
            out_lines.append("  invariant=%s occurrences=%d detail=%s" % (v["invariant"], c["count"], v["detail"][:300]))
            violations_reported += 1
            exit_code = 1
            minimised_examples.append({"replay": path, "invariant": v["invariant"], "signature": v.get("signature")})
        else:
            # not reproducible on its own in a fresh interpreter: does it need what the EARLIER plans of the same worker left
            # behind in the process?  Replay the worker's sequence up to the failing plan (the last 2, 4, 8, ... plans of it).
            seq_path = None
            try:
                idx0 = int(plan["index"])
                si0 = idx0 // 10 ** 7
                st0 = stages[si0]
                o0 = dict(st0.get("opts") or {})
                ch0 = max(1, int(o0.get("chunk", 50)))
                base0 = si0 * 10 ** 7
                j0 = (idx0 - base0) // ch0
                seq_all = []
                w_eff = max(1, min(workers, -(-int(st0["n"]) // ch0)))       # run_forked never starts more workers than jobs
                for jj in range(j0 % w_eff, j0 + 1, w_eff):
                    lo = base0 + jj * ch0
                    seq_all.extend(i for i in range(lo, min(base0 + st0["n"], lo + ch0)) if i <= idx0)
                take = 2
                while seq_path is None and take <= 2 * len(seq_all):
                    seq = seq_all[-take:]
                    doc = {"property": pid, "violation": c["v"], "world": getattr(world, "__name__", modname),
                           "sequence": {"master": int(master), "tier": tier, "indices": seq, "opts": o0}}
                    d_ = os.path.join(OUT_DIR, "replays", pid)
                    os.makedirs(d_, exist_ok=True)
                    cand = os.path.join(d_, "%s_sequence_%d_last%d.json" % (c["v"]["invariant"].replace("/", "_"), idx0, len(seq)))
                    with open(cand, "w") as f_:
                        json.dump(doc, f_, indent=1, sort_keys=True)
                        f_.write("\n")
                    ok2, _ = replay_in_fresh_interpreter(pid, cand, timeout=900)
                    if ok2:
                        seq_path = cand
                    else:
                        os.remove(cand)
                        take *= 4
            except Exception:       # noqa: BLE001
                seq_path = None
            if seq_path is not None:
                out_lines.append("VIOLATION property=%s replay=%s" % (pid, seq_path))
                out_lines.append("  invariant=%s occurrences=%d (needs the state earlier plans leave behind in the process: the replay is a sequence of plans) detail=%s" % (
                    c["v"]["invariant"], c["count"], c["v"]["detail"][:260]))
                violations_reported += 1
                exit_code = 1
                minimised_examples.append({"replay": seq_path, "invariant": c["v"]["invariant"], "signature": c["v"].get("signature")})
            else:
                out_lines.append("HARNESS-ERROR property=%s non-replayable failure %s (%s)" % (pid, path, txt.strip()[-300:]))
                if exit_code == 0:
                    exit_code = 2
    if len(unknown) > 6:
        out_lines.append("  (+%d further violation classes not minimised)" % (len(unknown) - 6))
    if unknown and violations_reported == 0 and exit_code == 0:
        # violations were seen but none could be turned into a replay file: never report HELD
        out_lines.append("HARNESS-ERROR property=%s %d violation class(es) seen (e.g. %s) but no plan was kept for them" % (pid, len(unknown), unknown[0][0][:200]))
        exit_code = 2
    for kh in known_hit.values():
        e = kh["entry"]
        out_lines.append("KNOWN-FINDING: property=%s %s [%d occurrences this run]" % (pid, e.get("description", e.get("invariant")), kh["count"]))
    if total["harness"]:
        h = total["harness"][0]
        out_lines.append("HARNESS-ERROR property=%s %d plan(s) failed inside the harness; first: index=%s %s" % (
            pid, len(total["harness"]), h.get("index"), h.get("detail", "")[-800:]))
        if h.get("plan") is not None:
            d = os.path.join(OUT_DIR, "replays", pid)
            os.makedirs(d, exist_ok=True)
            with open(os.path.join(d, "harness_error_%s.json" % h.get("seed")), "w") as f:
                json.dump(h["plan"], f, indent=1, sort_keys=True)
        if exit_code == 0:
            exit_code = 2
    if pool_broken:
        out_lines.append("HARNESS-ERROR property=%s worker pool failed: %s" % (pid, pool_broken))
        if exit_code == 0:
            exit_code = 2
    if total["evaluations"] == 0 and exit_code == 0:
        out_lines.append("HARNESS-ERROR property=%s no plan was executed" % pid)
        exit_code = 2

    wall = time.time() - t0
    # ---- evidence -----------------------------------------------------------
    cov = {
        "evaluations": total["evaluations"],
        "distinct_nontrivial": len(total["digests_nt"]),
        "rule": rule,
        "samples": total["samples"][:3] if total["samples"] else [b["plan"] for b in total["bad"][:1] if b["plan"]],
        "nontrivial_runs": total["nontrivial"],
        "requested_plans": n_plans,
        "stages": stage_report,
        "runs_per_hour": int(total["evaluations"] / max(explore_s, 1e-9) * 3600),
        "seeds_per_hour": int(total["evaluations"] / max(explore_s, 1e-9) * 3600),
        "workers": workers,
        "simulated_time_covered": total["sim_time"],
        "steps_executed": total["steps"],
        "fault_kinds_fired": dict(sorted(total["faults"].items())),
        "probes_hit": dict(sorted(total["probes"].items())),
        "distinct_abstract_states": len(total["states"]),
        "abstract_state_histogram_top": dict(sorted(total["states"].items(), key=lambda kv: -kv[1])[:25]),
        "components": components or {},
        "violation_classes": {k: c["count"] for k, c in sorted(classes.items())},
        "known_findings_hit": [{"description": kh["entry"].get("description"), "count": kh["count"]} for kh in known_hit.values()],
        "minimised_violations": minimised_examples,
        "harness_errors": len(total["harness"]),
    }
    if extra_cov:
        cov.update(extra_cov)
    ev = {
        "property_id": pid, "tier": tier, "seed": int(master), "level": level, "coverage": cov,
        "assumptions": assumptions or [], "wall_s": round(wall, 3), "violations": violations_reported,
    }
    if cov["distinct_nontrivial"] >= 2 and cov["samples"]:
        os.makedirs(os.path.join(OUT_DIR, "evidence"), exist_ok=True)
        with open(os.path.join(OUT_DIR, "evidence", pid + ".json"), "w") as f:
            json.dump(ev, f, indent=1, sort_keys=True, default=str)
            f.write("\n")
    else:
        out_lines.append("HARNESS-ERROR property=%s run too small to be evidence (distinct_nontrivial=%d)" % (pid, cov["distinct_nontrivial"]))
        if exit_code == 0:
            exit_code = 2
    print("check %s tier=%s seed=%d: %d plans in %.1fs (%d/h), %d distinct non-trivial executions, %d abstract states, faults fired: %s" % (
        pid, tier, master, total["evaluations"], wall, cov["runs_per_hour"], cov["distinct_nontrivial"],
        cov["distinct_abstract_states"], json.dumps(cov["fault_kinds_fired"])))
    for l in out_lines:
        print(l)
    if exit_code == 0:
        print("HELD property=%s on everything explored" % pid)
    sys.stdout.flush()
    return exit_code
