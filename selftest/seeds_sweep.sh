#!/bin/sh
# Runs every claimed quick check under several VERIF_SEED values: all must HOLD (no alarm on the unchanged tree).
# usage: selftest/seeds_sweep.sh "1 2 3" [tier]
cd "$(dirname "$0")/.."
SEEDS="${1:-1 2 3}"
TIER="${2:-quick}"
bad=0
for s in $SEEDS; do
  for p in C03 C05 C06 C07 C08 C10 C13 C14 C15; do
    out=$(VERIF_SEED=$s VERIF_OUT=/dev/shm/verif-seeds-$$ ./check $p --tier $TIER 2>&1); rc=$?
    echo "seed=$s $p exit=$rc $(echo "$out" | grep -E '^check' | cut -c1-110)"
    if [ $rc -ne 0 ]; then bad=1; echo "$out" | grep -E 'VIOLATION|HARNESS|invariant' | cut -c1-300; fi
  done
done
rm -rf /dev/shm/verif-seeds-$$
exit $bad
