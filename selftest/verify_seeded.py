#!/venv/bin/python
"""Independent confirmation of a seeded change written by a sub-agent that saw only the property text.

usage: verify_seeded.py <id> <agent worktree> <property> "<test files>" "<needs>"

Copies patch.diff / demo.py / notes.md to /verif/seeded/<id>/, then in a fresh scratch copy of /repo under /dev/shm
(never /repo, never /verif): demo exits 0 without the patch, 1 with it; the package imports; the named test files pass
with the patch (same pass/fail counts as without).  Writes meta.json.  The scratch copy is removed."""
import json
import os
import re
import shutil
import subprocess
import sys

VERIF = os.path.dirname(os.path.dirname(os.path.abspath(__file__)))


def sh(cmd, cwd, timeout=1800):
    p = subprocess.run(cmd, cwd=cwd, shell=True, capture_output=True, text=True, timeout=timeout)
    return p.returncode, (p.stdout + p.stderr)


def counts(out):
    m = re.findall(r"(\d+) (passed|failed|error|errors|skipped)", out)
    return {k: int(v) for v, k in m}


def main():
    sid, wt, pid, tests, needs = sys.argv[1:6]
    dst = os.path.join(VERIF, "seeded", sid)
    os.makedirs(dst, exist_ok=True)
    for f in ("patch.diff", "demo.py", "notes.md"):
        shutil.copy(os.path.join(wt, "SEEDED", f), os.path.join(dst, f))
    d = "/dev/shm/verif-seeded-%d" % os.getpid()
    shutil.rmtree(d, ignore_errors=True)
    os.makedirs(d)
    try:
        shutil.copytree("/repo/pyphysim", os.path.join(d, "pyphysim"), ignore=shutil.ignore_patterns("__pycache__"))
        shutil.copytree("/repo/tests", os.path.join(d, "tests"), ignore=shutil.ignore_patterns("__pycache__"))
        os.makedirs(os.path.join(d, "SEEDED"))
        shutil.copy(os.path.join(dst, "demo.py"), os.path.join(d, "SEEDED", "demo.py"))
        rc0, out0 = sh("/venv/bin/python SEEDED/demo.py", d)
        t0 = sh("/venv/bin/python -m pytest -q -p no:cacheprovider --timeout=900 %s" % tests, d)
        rcp, outp = sh("patch -p1 -s -i %s" % os.path.join(dst, "patch.diff"), d)
        if rcp != 0:
            print("PATCH FAILED", outp)
            return 2
        rci, outi = sh("/venv/bin/python -c \"import pyphysim, os; print(os.path.dirname(pyphysim.__file__))\"", d)
        rc1, out1 = sh("/venv/bin/python SEEDED/demo.py", d)
        t1 = sh("/venv/bin/python -m pytest -q -p no:cacheprovider --timeout=900 %s" % tests, d)
        for f in os.listdir(d):
            if f.endswith("_state.pickle"):
                os.remove(os.path.join(d, f))
        c0, c1 = counts(t0[1]), counts(t1[1])
        ok = (rc0 == 0 and rc1 == 1 and rci == 0 and outi.strip().startswith(d) and c1.get("failed", 0) <= c0.get("failed", 0)
              and c1.get("passed", 0) >= c0.get("passed", 0) and not c1.get("error") and not c1.get("errors"))
        nlines = sum(1 for l in open(os.path.join(dst, "patch.diff")) if l[:1] in "+-" and l[:3] not in ("+++", "---"))
        meta = {
            "id": sid, "property": pid, "needs_to_manifest": needs,
            "written_by": "fresh sub-agent given only the property text and its own git worktree (nothing from /verif)",
            "confirmed": {"demo_exit_without_patch": rc0, "demo_exit_with_patch": rc1, "imports_from_copy": outi.strip(),
                          "tests": tests, "tests_without_patch": c0, "tests_with_patch": c1, "changed_lines": nlines,
                          "demo_output_with_patch_tail": out1.strip().splitlines()[-3:]},
            "what_i_ran": ["patch -p1 on a /dev/shm copy of /repo/pyphysim + tests", "/venv/bin/python SEEDED/demo.py (before/after)",
                           "/venv/bin/python -m pytest -q %s (before/after)" % tests],
            "accepted": bool(ok),
        }
        json.dump(meta, open(os.path.join(dst, "meta.json"), "w"), indent=1)
        print(json.dumps(meta["confirmed"], indent=1))
        print("ACCEPTED" if ok else "REJECTED")
        return 0 if ok else 1
    finally:
        shutil.rmtree(d, ignore_errors=True)


if __name__ == "__main__":
    sys.exit(main())
