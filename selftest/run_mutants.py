#!/venv/bin/python
"""Sensitivity self-test: every mutant in selftest/mutants.py (and every kept
seeded change under /verif/seeded/*/patch.diff) is applied to a scratch copy
of /repo under /dev/shm (never /repo, never /verif), the property's quick check
is run against the copy (VERIF_REPO), and must exit 1 with a VIOLATION line.

usage: run_mutants.py [--only substr] [--pid C07] [--with-tests] [--tier quick] [--seeded]
"""
import argparse
import json
import os
import shutil
import subprocess
import sys
import time

HERE = os.path.dirname(os.path.abspath(__file__))
VERIF = os.path.dirname(HERE)
sys.path.insert(0, HERE)

TEST_FILES = {
    "pyphysim/simulations": "tests/simulations_package_test.py",
    "pyphysim/channels": "tests/channels_package_test.py",
    "pyphysim/ia": "tests/ia_package_test.py",
    "pyphysim/modulators": "tests/modulators_package_test.py",
    "pyphysim/util": "tests/util_package_test.py",
}


def make_copy(tag):
    d = "/dev/shm/verif-mut-%d-%s" % (os.getpid(), tag)
    shutil.rmtree(d, ignore_errors=True)
    os.makedirs(d)
    shutil.copytree("/repo/pyphysim", os.path.join(d, "pyphysim"), ignore=shutil.ignore_patterns("__pycache__"))
    return d


def run_check(pid, d, tier, extra_env=None, wall=None):
    env = dict(os.environ)
    env["VERIF_REPO"] = d
    env["VERIF_OUT"] = os.path.join(d, "out")
    env.update(extra_env or {})
    cmd = [os.path.join(VERIF, "check"), pid, "--tier", tier]
    if wall:
        cmd += ["--wall", str(wall)]
    t0 = time.time()
    p = subprocess.run(cmd, cwd=VERIF, env=env, capture_output=True, text=True, timeout=3600)
    return p.returncode, p.stdout + p.stderr, time.time() - t0


def run_tests(d, relfile):
    tf = None
    for pre, t in TEST_FILES.items():
        if relfile.startswith(pre):
            tf = t
    if tf is None:
        return None
    shutil.copytree("/repo/tests", os.path.join(d, "tests"), ignore=shutil.ignore_patterns("__pycache__"))
    p = subprocess.run(["/venv/bin/python", "-m", "pytest", "-q", "-p", "no:cacheprovider", "--timeout=900", "-x", "-q", tf,
                        "--deselect", "dummy"], cwd=d, capture_output=True, text=True, timeout=3600)
    tail = p.stdout.strip().splitlines()[-1] if p.stdout.strip() else ""
    return tail


def main():
    ap = argparse.ArgumentParser()
    ap.add_argument("--only")
    ap.add_argument("--pid")
    ap.add_argument("--with-tests", action="store_true")
    ap.add_argument("--tier", default="quick")
    ap.add_argument("--seeded", action="store_true")
    ap.add_argument("--wall", type=float)
    a = ap.parse_args()
    from mutants import MUTANTS
    todo = []
    if not a.seeded:
        for (mid, pid, f, old, new) in MUTANTS:
            if a.only and a.only not in mid:
                continue
            if a.pid and a.pid != pid:
                continue
            todo.append(("mutant", mid, pid, f, old, new))
    sd = os.path.join(VERIF, "seeded")
    if os.path.isdir(sd):
        for name in sorted(os.listdir(sd)):
            meta = os.path.join(sd, name, "meta.json")
            if not os.path.exists(meta):
                continue
            m = json.load(open(meta))
            if a.only and a.only not in name:
                continue
            if a.pid and a.pid != m["property"]:
                continue
            todo.append(("seeded", name, m["property"], os.path.join(sd, name, "patch.diff"), None, None))
    results = []
    for kind, mid, pid, f, old, new in todo:
        d = make_copy(mid)
        try:
            if kind == "mutant":
                path = os.path.join(d, f)
                src = open(path).read()
                if (src.count(old) != 1 and not mid.endswith("__all")) or src.count(old) < 1:
                    results.append((mid, pid, "STALE-MUTANT (pattern occurs %d times)" % src.count(old), 0))
                    print("%-45s %s STALE (pattern occurs %d times)" % (mid, pid, src.count(old)))
                    continue
                open(path, "w").write(src.replace(old, new))
                relfile = f
            else:
                p = subprocess.run(["patch", "-p1", "-s", "-i", f], cwd=d, capture_output=True, text=True)
                if p.returncode != 0:
                    results.append((mid, pid, "PATCH-FAILED " + p.stdout[-200:], 0))
                    print("%-45s %s PATCH FAILED %s" % (mid, pid, p.stdout[-200:]))
                    continue
                relfile = ""
            tests = run_tests(d, relfile) if a.with_tests and kind == "mutant" else None
            rc, out, dt = run_check(pid, d, a.tier, wall=a.wall)
            viol = [l for l in out.splitlines() if l.startswith("VIOLATION")]
            inv = [l.strip() for l in out.splitlines() if l.strip().startswith("invariant=")]
            status = "DETECTED" if (rc == 1 and viol) else ("HARNESS-ERROR" if rc == 2 else "MISSED")
            results.append((mid, pid, status, dt))
            print("%-45s %s %-13s %5.1fs %s%s" % (mid, pid, status, dt, (inv[0][:110] if inv else ""),
                                                 ("  | baseline tests: " + tests) if tests else ""))
            if status != "DETECTED":
                print("    " + "\n    ".join(out.strip().splitlines()[-6:]))
            sys.stdout.flush()
        finally:
            shutil.rmtree(d, ignore_errors=True)
    missed = [r for r in results if r[2] != "DETECTED"]
    print("mutants: %d, detected: %d, not detected: %d" % (len(results), len(results) - len(missed), len(missed)))
    return 1 if missed else 0


if __name__ == "__main__":
    sys.exit(main())
