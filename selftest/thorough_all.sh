#!/bin/sh
# Runs the thorough tier of every claimed check, one after the other (about 2.5 h on 16 idle cores).
cd "$(dirname "$0")/.."
bad=0
for p in ${1:-C07 C05 C06 C08 C10 C14 C03 C13 C15}; do
  out=$(VERIF_OUT=${VERIF_OUT:-/dev/shm/verif-thorough-$$} ./check $p --tier thorough 2>&1); rc=$?
  echo "$p exit=$rc $(echo "$out" | grep -E '^check' | cut -c1-160)"
  echo "$out" | grep -E 'VIOLATION|HARNESS|invariant|KNOWN' | cut -c1-300
  [ $rc -ne 0 ] && bad=1
done
rm -rf /dev/shm/verif-thorough-$$
exit $bad
