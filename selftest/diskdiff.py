#!/venv/bin/python
"""Differential self-test of the fake disk: the same fault-free runner plans
are executed once on SimDisk and once on a REAL scratch directory (under
/dev/shm, removed afterwards; only the clock stays virtual).  The final file
sets and the parsed contents (repetition ids per variation, current_rep,
parameters) must agree.  usage: diskdiff.py [--n 300]"""
import argparse
import json
import os
import pickle
import random
import shutil
import sys
import tempfile

HERE = os.path.dirname(os.path.abspath(__file__))
VERIF = os.path.dirname(HERE)
sys.path.insert(0, VERIF)
os.environ.setdefault("PYTHONHASHSEED", "0")

from simkit import core   # noqa: E402

core.use_repo()
from worlds import runner_gen as RG   # noqa: E402
from worlds import runner_world as RW  # noqa: E402


def summarise(path, data):
    if not data:
        return ("empty",)
    try:
        if path.endswith(".json"):
            d = json.loads(data.decode("utf-8"))
            return ("json", [[int(x) for x in r["value_list"]] for r in d["results"]["ids"]], d["runned_reps"])
        obj = pickle.loads(data)
        ids = [[int(x) for x in r._value_list] for r in obj._results["ids"]]
        return ("pickle", ids, int(obj.current_rep), RW.canon_params(obj._params.parameters), obj.runned_reps)
    except Exception as e:
        return ("unparseable", type(e).__name__)


def run_real(plan):
    """Same plan, real file system in a scratch directory, virtual clock only."""
    w = RW.World(plan)
    d = tempfile.mkdtemp(prefix="verif-diskdiff-", dir="/dev/shm" if os.path.isdir("/dev/shm") else None)
    saved_time = RW.RUN_mod.time
    cwd = os.getcwd()
    try:
        RW.RUN_mod.time = w.clock.read
        os.chdir(d)
        w.cwd = d
        for k, inc in enumerate(plan["incarnations"]):
            rep = w.run_incarnation(k, inc, k == len(plan["incarnations"]) - 1)
            if rep["outcome"] != "completed":
                return None, "real run: %s %r" % (rep["outcome"], rep["exc"])
        out = {}
        for root, _, files in os.walk(d):
            for f in files:
                p = os.path.relpath(os.path.join(root, f), d)
                out[p] = summarise(p, open(os.path.join(root, f), "rb").read())
        return out, None
    finally:
        RW.RUN_mod.time = saved_time
        os.chdir(cwd)
        shutil.rmtree(d, ignore_errors=True)


def run_sim(plan):
    w = RW.World(plan)
    saved = RW._install(w)
    try:
        for k, inc in enumerate(plan["incarnations"]):
            rep = w.run_incarnation(k, inc, k == len(plan["incarnations"]) - 1)
            if rep["outcome"] != "completed":
                return None, "sim run: %s %r" % (rep["outcome"], rep["exc"])
        return {p: summarise(p, bytes(b)) for p, b in w.disk.files.items()}, None
    finally:
        RW._restore(saved)
        w.seams = None


def main():
    ap = argparse.ArgumentParser()
    ap.add_argument("--n", type=int, default=300)
    a = ap.parse_args()
    bad = 0
    done = 0
    for idx in range(a.n):
        rng = random.Random(core.derive_seed(0, "diskdiff", idx))
        plan = RG.gen_plan_c05(rng, "quick", idx, {})
        if plan["config"]["results_name"] is None:
            plan["config"]["results_name"] = "res"
        plan["property"] = "C05"
        plan["config"]["progress"] = None      # the banner of the text styles goes to the real stdout when run outside the world
        for inc in plan["incarnations"]:
            inc["fault"] = None
        sim, e1 = run_sim(plan)
        real, e2 = run_real(plan)
        if e1 or e2:
            if (e1 is None) != (e2 is None):
                print("DIFF plan %d: sim=%s real=%s" % (idx, e1, e2))
                bad += 1
            continue
        done += 1
        if sim != real:
            bad += 1
            ks = sorted(set(sim) | set(real))
            k = next(k for k in ks if sim.get(k) != real.get(k))
            print("DIFF plan %d file %r: sim=%s real=%s" % (idx, k, str(sim.get(k))[:200], str(real.get(k))[:200]))
    print("diskdiff: %d plans compared on SimDisk and on a real directory, %d differences" % (done, bad))
    return 1 if bad else 0


if __name__ == "__main__":
    sys.exit(main())
