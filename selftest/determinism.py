#!/venv/bin/python
"""Determinism self-test: for every claimed property, N plan indices are
generated and executed in fresh interpreters under different PYTHONHASHSEED
values and at different degrees of process parallelism; the per-index
(plan sha256, event-log digest, verdict) triples must be identical.

usage: determinism.py [--pids C05,C07] [--n 300] [--tier quick]
"""
import argparse
import hashlib
import json
import os
import subprocess
import sys

HERE = os.path.dirname(os.path.abspath(__file__))
VERIF = os.path.dirname(HERE)

WORKER = r'''
import sys, os, json, random, hashlib
sys.path.insert(0, %(verif)r)
from simkit import core, checks
core.use_repo()
pid, tier, lo, hi, master, stage = sys.argv[1], sys.argv[2], int(sys.argv[3]), int(sys.argv[4]), int(sys.argv[5]), int(sys.argv[6])
d = checks.DEFS[pid]
world = core._load_world(d["module"])
st = d["stages"][tier][stage]
opts = dict(st.get("opts") or {})
out = {}
for idx in range(lo, hi):
    gidx = stage * 10**7 + idx
    seed = core.derive_seed(master, pid, gidx)
    plan = world.gen_plan(random.Random(seed), tier, gidx, opts)
    if plan is None:
        out[gidx] = ["none", "", ""]
        continue
    plan["property"] = pid; plan["seed"] = seed; plan["index"] = gidx; plan["tier"] = tier
    ph = hashlib.sha256(json.dumps(plan, sort_keys=True).encode()).hexdigest()[:16]
    res = core.execute_guarded(world, plan)
    dg = res.get("digests") or [res["digest"]]
    out[gidx] = [ph, hashlib.sha256("".join(dg).encode()).hexdigest()[:16],
                 res["status"] + ":" + ",".join(sorted(core.vkey(v) for v in res["violations"]))]
print("RESULT" + json.dumps(out, sort_keys=True))
'''


def run_cfg(pid, tier, n, master, stage, hashseed, nproc):
    per = (n + nproc - 1) // nproc
    procs = []
    env = dict(os.environ)
    env.update({"PYTHONHASHSEED": str(hashseed), "OMP_NUM_THREADS": "1", "OPENBLAS_NUM_THREADS": "1", "MKL_NUM_THREADS": "1"})
    for i in range(nproc):
        lo, hi = i * per, min(n, (i + 1) * per)
        if lo >= hi:
            continue
        procs.append(subprocess.Popen(["/venv/bin/python", "-c", WORKER % {"verif": VERIF}, pid, tier, str(lo), str(hi), str(master), str(stage)],
                                      stdout=subprocess.PIPE, stderr=subprocess.PIPE, text=True, env=env, cwd=VERIF))
    out = {}
    for p in procs:
        so, se = p.communicate(timeout=3600)
        line = [l for l in so.splitlines() if l.startswith("RESULT")]
        if p.returncode != 0 or not line:
            raise SystemExit("worker failed: %s\n%s" % (so[-500:], se[-2000:]))
        out.update(json.loads(line[0][6:]))
    return out


def main():
    ap = argparse.ArgumentParser()
    ap.add_argument("--pids")
    ap.add_argument("--n", type=int, default=300)
    ap.add_argument("--tier", default="quick")
    ap.add_argument("--seed", type=int, default=0)
    a = ap.parse_args()
    sys.path.insert(0, VERIF)
    from simkit import checks
    pids = a.pids.split(",") if a.pids else sorted(checks.DEFS)
    bad = 0
    for pid in pids:
        nst = len(checks.DEFS[pid]["stages"][a.tier])
        for stage in range(nst):
            sweep = (checks.DEFS[pid]["stages"][a.tier][stage].get("opts") or {}).get("mode") == "sweep"
            n = max(4, a.n // 40) if sweep else a.n
            ref = run_cfg(pid, a.tier, n, a.seed, stage, 0, 16)
            for (hs, npr) in ((0, 3), (12345, 16), (987, 1 if n <= 60 else 5)):
                got = run_cfg(pid, a.tier, n, a.seed, stage, hs, npr)
                diff = [k for k in ref if ref[k] != got.get(k)]
                status = "OK" if not diff else "DIVERGED at %s" % diff[:5]
                print("%s stage %d: %d plans, hashseed=%s procs=%d vs hashseed=0 procs=16: %s" % (pid, stage, n, hs, npr, status))
                if diff:
                    bad += 1
                    k = diff[0]
                    print("   ref=%s\n   got=%s" % (ref[k], got.get(k)))
            h = hashlib.sha256(json.dumps(ref, sort_keys=True).encode()).hexdigest()[:16]
            nv = sum(1 for v in ref.values() if v[2].startswith("violation"))
            print("%s stage %d: combined digest %s, %d plans with violations" % (pid, stage, h, nv))
        sys.stdout.flush()
    print("determinism: %s" % ("FAILED" if bad else "all configurations agree"))
    return 1 if bad else 0


if __name__ == "__main__":
    sys.exit(main())
