#!/usr/bin/env python3
"""Regenerates /verif/MANIFEST.json from the table below (kept as code so the
manifest can never drift from what ./check implements)."""
import json, os, sys

HERE = os.path.dirname(os.path.abspath(__file__))

NA = {
 "C01": "pure function of (modulator, M, phase offset, indexes/samples): table look-up and argmin; no state, clock, I/O, schedule or fault for a simulator to own (DESIGN.md section 4, not applicable)",
 "C02": "OFDM modulate/demodulate/one-tap equalisation are pure functions of (parameters, input, one static channel realisation); no history, clock, I/O or fault",
 "C04": "MIMO encode/decode and ZF/MMSE filters are stateless linear algebra of (H, data, noise variance); nothing for a scheduler or fault injector to control",
 "C09": "block diagonalisation is a pure function of (channel, powers, noise, metric); nothing persists between calls",
 "C11": "SINR/covariance formulas are pure functions of the matrices passed in; the history-dependent state they read is decided under C08/C10",
 "C12": "doWF is a pure function of four inputs",
 "C16": "closed-form error-rate curves are pure functions of (modulator, SNR)",
 "C17": "save->load equality is a round trip of an input object with no crash, concurrent writer or fault in its quantifier; the crash side of the same save path is decided under C07",
 "C18": "Zadoff-Chu sequences and the estimators are pure functions of (root, size, shift, observation)",
 "C19": "geometry predicates are pure; user placement is i.i.d. rejection sampling whose only schedule is the PRNG stream - seeding it would be random testing, not simulation",
 "C20": "projections, GMD, whitening, unit conversions are pure functions of their inputs",
}

CHECKS = {}   # filled by later commits: id -> dict(level, text, note, technique, engine, design_ref)

def main():
    try:
        sys.path.insert(0, HERE)
        from simkit.registry import CHECKS as REG
        checks_src = REG
    except Exception:
        checks_src = CHECKS
    checks = []
    for pid in sorted(checks_src):
        c = checks_src[pid]
        checks.append({
            "property_id": pid,
            "quick_cmd": "./check %s --tier quick" % pid,
            "thorough_cmd": "./check %s --tier thorough" % pid,
            "evidence_file": "/verif/evidence/%s.json" % pid,
            "replay_cmd_template": "./check %s --replay {path}" % pid,
            "engine": c["engine"],
            "level_claimed": {"category": c["level"], "text": c["text"], "design_ref": c["design_ref"]},
            "level_note": c["note"],
            "technique": c["technique"],
        })
    na = dict(NA)
    try:
        from simkit.registry import NOT_CLAIMED_YET
        na.update(NOT_CLAIMED_YET)
    except Exception:
        pass
    for pid in checks_src:
        na.pop(pid, None)
    man = {
        "version": 1,
        "setup_cmd": "./setup.sh",
        "hooks": {
            "guard": "PYPHYSIM_VERIF",
            "enable": "no hook in /repo is needed: every seam is a module-level name (runner.time, runner.os, results.open), a user subclass method, an injectable RandomState or sys.settrace; the guard name is reserved and unused",
            "baseline_off_cmd": "cd /repo && /venv/bin/python -m pytest -ra -q -p no:cacheprovider --timeout=900 --continue-on-collection-errors",
            "source_commits": [],
            "add_only": True,
        },
        "engines": [
            {"name": "simkit", "path": "/verif/simkit", "serves_properties": sorted(checks_src),
             "kind_free_text": "seeded deterministic simulator: plan generator (one integer -> JSON plan), worlds with virtual clock / in-memory crash-consistent disk / scripted user program / RNG seams, reference models checked after every step, fault injection at every seam event and source line, ddmin minimiser, exact JSON replay in a fresh interpreter"},
        ],
        "checks": checks,
        "notes": "Technique studied: deterministic simulation with fault injection. See DESIGN.md. Exit codes of ./check: 0 held (KNOWN-FINDING lines allowed), 1 VIOLATION, 2 harness error.",
        "not_applicable": [{"property_id": k, "reason": na[k]} for k in sorted(na)],
    }
    with open(os.path.join(HERE, "MANIFEST.json"), "w") as f:
        json.dump(man, f, indent=1)
        f.write("\n")

if __name__ == "__main__":
    main()
