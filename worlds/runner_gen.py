"""Plan generators, crash-point sweeps and shrinkers for the runner world
(C05: fault-free histories; C07: crash / restart)."""
import copy
import json

from simkit.core import (HarnessError, bump, ddmin_candidates, new_result, shrink_int)
from worlds import runner_world as RW

WRITE_PATH_PRE = ("disk:open:w:pre", "disk:close:pre", "disk:mkdir:pre", "disk:replace:pre")


# --------------------------------------------------------------------------
# configuration / script
# --------------------------------------------------------------------------
def gen_values(rng, n, kind):
    if kind == "int":
        pool = rng.sample(range(-5, 40), n)
        return sorted(pool) if rng.random() < 0.5 else pool
    if kind == "float":
        return [round(x * 0.5 + 0.25, 2) for x in rng.sample(range(0, 60), n)]
    if kind == "tiny":           # distinct floats that are closer together than any absolute tolerance (noise powers, delays)
        return [x * 1e-9 for x in rng.sample(range(1, 40), n)]
    if kind == "mixed":          # a grid that numpy would coerce to one type: it must reach the user iteration as written
        return rng.sample([0, "auto", 2.5, True, None, 7, "x", 1.0e-3], n)
    return rng.sample(["a", "b", "qpsk", "x1", "zf", "mmse", "u"], n)


def gen_config(rng, max_vars, rep_choices, allow_none_name=False):
    for _ in range(100):
        nun = rng.choice([0, 1, 1, 2, 2, 3])
        names = rng.sample(["snr", "m", "nr", "alg", "beta", "Zeta", "a", "SNR2", "p", "x_1"], nun)
        unpacked = {}
        prod = 1
        for nm in names:
            ln = rng.choice([1, 2, 2, 3, 3, 4])
            kind = rng.choice(["int", "int", "float", "float", "str", "str", "tiny", "mixed"])
            unpacked[nm] = {"values": gen_values(rng, ln, kind), "array": kind not in ("str", "mixed") and rng.random() < 0.5}
            prod *= ln
        if prod <= max_vars:
            break
    else:
        unpacked = {}
    fixed = {}
    for nm in rng.sample(["nt", "scen", "taps"], rng.choice([0, 1, 1, 2])):
        fixed[nm] = rng.choice([2, 7, "urban", [1, 2], 0.5, {"__nd__": [1.5, 2.5, 4.0]}, [[1, 2], [3]], None, True])    # incl. a ragged nested list
    tmpl = ["res"]
    scalars = [k for k, v in fixed.items() if not isinstance(v, (list, dict))]
    if scalars and rng.random() < 0.5:
        tmpl.append("res_{%s}" % rng.choice(scalars))
    if unpacked and rng.random() < 0.3:
        tmpl.append("r_{%s}" % rng.choice(sorted(unpacked)))
    name = rng.choice(tmpl)
    if allow_none_name and rng.random() < 0.4:
        name = None
    listy = [k for k, v in fixed.items() if isinstance(v, (list, dict))]
    unmark = rng.choice(listy) if listy and rng.random() < 0.4 else None
    order = list(fixed) + list(unpacked)
    rng.shuffle(order)
    unpack_order = list(unpacked)
    rng.shuffle(unpack_order)
    return {
        "order": order, "unpack_order": unpack_order,
        "unpacked": unpacked, "fixed": fixed, "rep_max": rng.choice(rep_choices),
        "results_name": name, "ext": rng.choice(["", "", ".json", ".pickle"]),
        "partial_folder": rng.choice(["partial_results", "partial_results", "partial_results", "pr", None]),
        "delete_partials": rng.random() < 0.3,
        "buffer": rng.choice([8192, 8192, 8192, 1, 64, None]),
        "progress": rng.choice([None, None, None, "text1", "text2"]),
        "unmark": unmark,
        "inherited_rules": rng.random() < 0.5,
    }


def gen_script(rng, cfg, pnames=("P1",)):
    nv = len(RW.variations_of(cfg))
    rm = cfg["rep_max"]
    p_skip = rng.choice([0.0, 0.0, 0.1, 0.3])
    horizon = min(3 * rm + 6, 60)
    skips = []
    for pn in pnames:
        for v in range(nv):
            run = 0
            for c in range(horizon):
                p = p_skip
                if c == 0 and rng.random() < 0.12:
                    p = 1.0                      # the very first repetition of a variation is skipped
                if run < 3 and rng.random() < p:
                    skips.append([pn, v, c])
                    run += 1
                else:
                    run = 0
    if rm >= 400 and rng.random() < 0.7:         # skips landing on the 500-repetition save boundary
        for pn in pnames:
            for v in range(nv):
                for c in (498, 499, 500, 501):
                    if rng.random() < 0.4:
                        skips.append([pn, v, c])
    dur_default = rng.choice([0.0, 1.0, 40.0, 100.0, 301.0]) if rm < 400 else rng.choice([0.0, 0.0, 0.2])
    durs = []
    for _ in range(rng.choice([0, 0, 1, 2])):
        durs.append([rng.choice(pnames), rng.randrange(nv), rng.randrange(max(1, min(rm, 12))), rng.choice([350.0, 1000.0, 5.0])])
    r = rng.random()
    if r < 0.5:
        stop = {"kind": "always"}
    elif r < 0.65:
        stop = {"kind": "rep_lt", "r0": rng.randint(1, rm + 1)}
    elif r < 0.88:
        stop = {"kind": "cnt_lt", "E": rng.randint(1, 4 * rm + 2)}
    elif r < 0.94:
        stop = {"kind": "ratio_gt", "q": rng.choice([0.5, 1.0, 1.5, 2.5])}
    elif r < 0.97:
        stop = {"kind": "skips_lt", "S": rng.randint(1, 3)}            # give up after S skipped repetitions
    else:
        stop = {"kind": "time_lt", "T": dur_default * rng.randint(1, rm + 2) + 0.5}   # a (virtual) time budget per variation
    out = {"skips": skips, "dur_default": dur_default, "durs": durs, "stop": stop}
    kg = rng.choice([None, None, "np", "np", "int"])
    if kg:
        out["kg_form"] = kg
    hist = rng.choice([None, None, None, "fresh", "reused", "reused"])     # an array-valued sum result, possibly from a reused buffer
    if hist:
        out["hist"] = hist
    return out


def gen_clock_faults(rng):
    if rng.random() > 0.3:
        return []
    return [{"at_read": rng.randint(1, 120), "jump": rng.choice([3600.0, -3600.0, 1e6, -1e6, 301.0, -0.5])}
            for _ in range(rng.choice([1, 1, 2]))]


def mutate_config(rng, cfg):
    """P2: same file-name template, different parameters."""
    c2 = copy.deepcopy(cfg)
    kinds = ["fixed_value"] if c2["fixed"] else []
    if c2["unpacked"]:
        kinds += ["unpacked_value", "unpacked_value", "unpack_to_fixed"]
    kinds.append("new_fixed")
    kind = rng.choice(kinds)
    if kind == "fixed_value":
        k = rng.choice(sorted(c2["fixed"]))
        old = c2["fixed"][k]
        if isinstance(old, dict):
            c2["fixed"][k] = {"__nd__": [old["__nd__"][0]] + [x + 1 for x in old["__nd__"][1:]]}     # only later elements differ
        else:
            if old is None or isinstance(old, bool):
                c2["fixed"][k] = 5
            elif isinstance(old, (int, float)):
                c2["fixed"][k] = old + 1
            elif isinstance(old, list):
                c2["fixed"][k] = [[1, 2], [4]] if old and isinstance(old[0], list) else [9]     # ragged list: only the last element differs
            else:
                c2["fixed"][k] = old + "_x"
    elif kind == "unpacked_value":
        k = rng.choice(sorted(c2["unpacked"]))
        vals = c2["unpacked"][k]["values"]
        i = rng.randrange(len(vals))
        nums = [v for v in vals if isinstance(v, (int, float)) and not isinstance(v, bool)]
        if isinstance(vals[i], str):
            vals[i] = vals[i] + "_x"
        else:
            vals[i] = (max(nums) if nums else 40) + 3          # a value that is in no grid
    elif kind == "unpack_to_fixed":
        k = rng.choice(sorted(c2["unpacked"]))
        spec = c2["unpacked"].pop(k)
        c2["fixed"][k] = spec["values"][-1]
    else:
        c2["fixed"]["extra"] = 1
    return c2, kind


# --------------------------------------------------------------------------
# dry run: event kinds of the last incarnation when it runs fault-free
# --------------------------------------------------------------------------
def dry_run(plan_prefix, inc, lines=False):
    p = dict(plan_prefix)
    probe = dict(inc)
    probe["fault"] = None
    p["incarnations"] = list(plan_prefix["incarnations"]) + [probe]
    res = RW.execute(p, record_last=True, record_lines=lines)
    w = res.pop("_world")
    if res["status"] == "harness_error":
        raise HarnessError("dry run failed")
    return w.recorded_kinds or [], w.recorded_lines, res


def actions_for(kind):
    if kind == "disk:write":
        return ["kill_hard", "kill_soft", "oserror"]
    if kind in WRITE_PATH_PRE:
        return ["kill_hard", "kill_soft", "oserror"]
    return ["kill_hard", "kill_soft"]


def gen_fault(rng, kinds, nlines, allow_lines=True, swarm=None):
    """swarm = the subset of fault actions enabled for THIS plan (swarm testing: every plan enables its own subset)."""
    if not kinds:
        return None
    enabled = swarm or ["kill_hard", "kill_soft", "oserror"]
    if allow_lines and nlines and rng.random() < 0.15:
        return {"line": rng.randint(1, nlines), "action": rng.choice([a for a in enabled if a != "oserror"] or ["kill_soft"])}
    n = len(kinds)
    window = [i for i, k in enumerate(kinds) if k.startswith("disk:")]
    if window and rng.random() < 0.55:
        i = rng.choice(window) + rng.choice([0, 0, 0, -1, 1])
        i = min(max(i, 0), n - 1)
    else:
        i = rng.randrange(n)
    kind = kinds[i]
    acts = [a for a in actions_for(kind) if a in enabled] or actions_for(kind)
    f = {"at": i + 1, "action": rng.choice(acts)}
    if kind == "disk:write":
        f["keep"] = rng.choice([0, 0, 1, 0.5, -1, 8192, rng.randint(2, 400), rng.random()])
    return f


# --------------------------------------------------------------------------
# C07 sampled plans
# --------------------------------------------------------------------------
def gen_plan_c07(rng, tier, idx, opts):
    mode = opts.get("mode", "sample")
    if mode == "sweep":
        return gen_sweep_plan(rng, tier, idx, opts)
    big = rng.random() < (0.06 if tier == "thorough" else 0.015)
    if big:
        cfg = gen_config(rng, 2, [499, 500, 501, 1000, 1001])
    else:
        # mostly small grids; sometimes 10+ variations (file names are zero padded by the number of variations)
        cfg = gen_config(rng, 16 if rng.random() < 0.08 else 6, [1, 2, 2, 3, 3, 4, 5, 6, 8])
    if cfg["results_name"] is None:
        cfg["results_name"] = "res"
    stale = rng.random() < 0.12
    pnames = ("P1", "P2") if stale else ("P1",)
    plan = {"world": "runner", "config": cfg, "script": gen_script(rng, cfg, pnames),
            "clock_faults": gen_clock_faults(rng), "incarnations": [], "lookups": False}
    nv = len(RW.variations_of(cfg))
    n_faulty = rng.choice([0, 1, 1, 1, 1, 2, 2, 3]) if not big else rng.choice([1, 1, 2])
    swarm = rng.choice([None, None, ["kill_hard"], ["kill_soft"], ["oserror", "kill_soft"], ["kill_hard", "oserror"]])
    plan["swarm"] = swarm
    use_index = rng.random() < 0.15
    for k in range(n_faulty):
        call = {"kind": "index", "i": rng.randrange(nv)} if (use_index and rng.random() < 0.6) else {"kind": "all"}
        inc = {"params": "P1", "call": call, "fault": None}
        kinds, nlines, _ = dry_run(plan, inc, lines=(not big and rng.random() < 0.3))
        nl = len(nlines) if isinstance(nlines, list) else 0
        if big:
            # bias towards the periodic save around repetition 500 / 1000
            inc["fault"] = gen_fault(rng, kinds, 0, allow_lines=False, swarm=swarm)
        else:
            inc["fault"] = gen_fault(rng, kinds, nl, swarm=swarm)
        plan["incarnations"].append(inc)
        if k > 0 and not big and rng.random() < 0.12:
            inc["set_rep_max"] = max(1, cfg["rep_max"] + rng.choice([-3, -2, -1, 1, 2]))     # e.g. a quick preview run from the partial files
        if k > 0:
            prevf = plan["incarnations"][k - 1].get("fault") or {}
            if prevf.get("action") in ("kill_soft", "oserror") and rng.random() < 0.35:
                inc["same_runner"] = True       # exception caught by the caller, simulate() called again in the same process
    if stale:
        c2, kind = mutate_config(rng, cfg)
        plan["config2"] = c2
        plan["stale_kind"] = kind
        if not plan["incarnations"] or rng.random() < 0.5:
            plan["incarnations"].append({"params": "P1", "call": {"kind": "all"}, "fault": None})
        plan["incarnations"].append({"params": "P2", "call": {"kind": "all"}, "fault": None})
        if kind == "fixed_value" and rng.random() < 0.5:
            # the SAME runner object is kept and the parameter is changed on it by item assignment (runner.params[k] = v)
            ch_ = [k_ for k_ in c2["fixed"] if json.dumps(c2["fixed"][k_], sort_keys=True) != json.dumps(cfg["fixed"].get(k_), sort_keys=True)]
            if len(ch_) == 1:
                plan["incarnations"][-1]["live_setitem"] = ch_[0]
    else:
        fin_call = {"kind": "all"}
        if use_index and rng.random() < 0.3:
            fin_call = {"kind": "index", "i": rng.randrange(nv)}
        fin = {"params": "P1", "call": fin_call, "fault": None}
        if plan["incarnations"]:
            prevf = plan["incarnations"][-1].get("fault") or {}
            if prevf.get("action") in ("kill_soft", "oserror") and rng.random() < 0.35:
                fin["same_runner"] = True
        plan["incarnations"].append(fin)
    return plan


# --------------------------------------------------------------------------
# C07 sweeps: one scenario, EVERY crash point of its first incarnation
# --------------------------------------------------------------------------
def gen_sweep_plan(rng, tier, idx, opts):
    if opts.get("sweep_lines"):
        cfg = gen_config(rng, 3, [1, 2, 2, 3])          # ~2-6 k line events x 2 actions each
    else:
        cfg = gen_config(rng, 4 if tier == "thorough" else 3, [1, 2, 2, 3, 3, 4])
    if cfg["results_name"] is None:
        cfg["results_name"] = "res"
    # every raw write is a crash point with several torn lengths: keep the number of raw writes per save small
    cfg["buffer"] = rng.choice([8192, 8192, None, 256])
    return {"world": "runner", "mode": "sweep", "config": cfg, "script": gen_script(rng, cfg),
            "clock_faults": gen_clock_faults(rng), "lookups": False,
            "sweep": {"lines": bool(opts.get("sweep_lines", False)),
                      "prefix_crash": (round(rng.uniform(0.2, 0.95), 3) if rng.random() < 0.35 else None)}}


def sweep_subplans(plan):
    """All single-fault plans of the scenario: every seam event x every
    applicable action (torn writes: several surviving prefixes), and, if asked,
    every source-line event x {hard, soft}."""
    base = {k: v for k, v in plan.items() if k not in ("mode", "sweep")}
    base["incarnations"] = []
    inc = {"params": "P1", "call": {"kind": "all"}, "fault": None}
    pc = plan["sweep"].get("prefix_crash")
    if pc:
        # crash during RECOVERY: a fixed first crash (position given as a fraction of the first run), then
        # every crash point of the restarted incarnation is enumerated
        k0, _, _ = dry_run(base, inc, lines=False)
        if k0:
            at = max(1, min(len(k0), int(pc * len(k0))))
            f0 = {"at": at, "action": "kill_hard"}
            if k0[at - 1] == "disk:write":
                f0["keep"] = 0.5
            base["incarnations"] = [dict(inc, fault=f0)]
    kinds, lines, _ = dry_run(base, inc, lines=plan["sweep"].get("lines", False))
    pre = list(base["incarnations"])
    fin = {"params": "P1", "call": {"kind": "all"}, "fault": None}
    for i, kind in enumerate(kinds):
        for act in actions_for(kind):
            keeps = [None]
            if kind == "disk:write":
                keeps = [0, 1, 0.5, -1]
            for kp in keeps:
                f = {"at": i + 1, "action": act}
                if kp is not None:
                    f["keep"] = kp
                p = dict(base)
                p["incarnations"] = pre + [dict(inc, fault=f), fin]
                yield p
    if plan["sweep"].get("lines") and isinstance(lines, list):
        for m in range(1, len(lines) + 1):
            for act in ("kill_hard", "kill_soft"):
                p = dict(base)
                p["incarnations"] = pre + [dict(inc, fault={"line": m, "action": act}), fin]
                yield p


def execute_sweep(plan):
    agg = new_result()
    agg["evaluations"] = 0
    agg["digests"] = []
    pid = plan.get("property", "C07")
    nsub = 0
    for sub in sweep_subplans(plan):
        sub["property"] = pid
        sub["seed"] = plan.get("seed", 0)
        sub["index"] = plan.get("index", 0)
        sub["sub"] = nsub
        nsub += 1
        r = RW.execute(sub)
        agg["evaluations"] += 1
        agg["digests"].append(r["digest"][:24])
        agg["steps"] += r["steps"]
        agg["sim_time"] += r["sim_time"]
        for k, v in r["faults"].items():
            bump(agg["faults"], k, v)
        for k, v in r["probes"].items():
            bump(agg["probes"], k, v)
        agg["state_keys"].extend(r["state_keys"])
        if r["status"] == "harness_error":
            agg["status"] = "harness_error"
            agg["detail"] = r.get("detail")
            return agg
        if r["status"] == "violation" and agg["status"] == "ok":
            agg["status"] = "violation"
            agg["violations"] = r["violations"]
            agg["failing_plan"] = sub
            # keep sweeping would only repeat the same class; stop this scenario
            break
    bump(agg["probes"], "sweep_scenarios")
    if plan["sweep"].get("prefix_crash"):
        bump(agg["probes"], "sweep_of_the_restart_after_a_first_crash")
    agg["nontrivial"] = True
    agg["digest"] = agg["digests"][0] if agg["digests"] else ""
    return agg


def execute(plan):
    if plan.get("mode") == "sweep":
        return execute_sweep(plan)
    r = RW.execute(plan)
    r.pop("_world", None)
    return r


# --------------------------------------------------------------------------
# C05: fault-free histories on richer grids
# --------------------------------------------------------------------------
def gen_plan_c05(rng, tier, idx, opts):
    big = rng.random() < (0.03 if tier == "thorough" else 0.008)
    if big:
        cfg = gen_config(rng, 3, [499, 500, 501, 1001], allow_none_name=True)
    else:
        cfg = gen_config(rng, 24, [1, 1, 2, 3, 4, 5, 6, 8, 12], allow_none_name=True)
    plan = {"world": "runner", "config": cfg, "script": gen_script(rng, cfg), "clock_faults": gen_clock_faults(rng),
            "incarnations": [], "lookups": True}
    lists = [k for k, v in cfg["fixed"].items() if isinstance(v, list)]
    if lists and cfg["results_name"] is None and rng.random() < 0.6:
        plan["mutating_user"] = lists[0]      # without a results file: saved parameters would (rightly) differ after the user's own edits
    nv = len(RW.variations_of(cfg))
    n = rng.choice([1, 1, 2, 2, 3, 4])
    has_name = cfg["results_name"] is not None
    for k in range(n):
        inc = {"params": "P1", "call": {"kind": "all"}, "fault": None, "same_runner": rng.random() < 0.8}
        if has_name and rng.random() < 0.3:
            inc["call"] = {"kind": "index", "i": rng.randrange(nv), "as_str": rng.random() < 0.3}
        if has_name and k > 0 and rng.random() < 0.15:
            inc["set_delete"] = rng.random() < 0.5
        if k > 0 and rng.random() < 0.35:
            inc["set_rep_max"] = max(1, cfg["rep_max"] + rng.choice([-2, -1, 1, 2, 3, 5]))
        if k < n - 1 and not has_name and rng.random() < 0.2:
            # the user program (or Ctrl-C) raises out of simulate() somewhere; nothing is on disk, and simulate() is called again
            # (on the same runner or a new one): this call must satisfy the statement on its own
            inc["fault"] = {"at": rng.randint(1, 60), "action": "kill_soft"}
        if k > 0 and not has_name and rng.random() < 0.3:
            # the grid itself changes on the live runner: a parameter is un-marked / a list-valued one is marked for unpacking
            cands = [("unmark", nm) for nm in sorted(cfg["unpacked"])] + [("mark", nm) for nm, v in sorted(cfg["fixed"].items()) if isinstance(v, (list, dict))]
            cands += [("reverse_in_hook", nm) for nm in sorted(cfg["unpacked"]) if len(cfg["unpacked"][nm]["values"]) > 1]
            if cands:
                a, nm = rng.choice(cands)
                inc["regrid"] = {a: nm}
                inc["same_runner"] = True
                inc["call"] = {"kind": "all"}
                cfg = RW.regrid_cfg(cfg, inc["regrid"])      # later steps see the new grid
        plan["incarnations"].append(inc)
    return plan


# --------------------------------------------------------------------------
# shrinking (every candidate is validated by execution, so candidates may be
# invalid; they are then simply rejected)
# --------------------------------------------------------------------------
def shrink(plan):
    if plan.get("mode") == "sweep":
        return
    P = lambda: copy.deepcopy(plan)   # noqa: E731
    incs = plan["incarnations"]
    # fewer incarnations
    for i in range(len(incs) - 1):
        c = P()
        del c["incarnations"][i]
        yield c
    # stale part gone
    if plan.get("config2") is not None and not any(i.get("params") == "P2" for i in incs):
        c = P()
        c.pop("config2")
        yield c
    # faults: remove, then earlier / simpler
    for i, inc in enumerate(incs):
        f = inc.get("fault")
        if f is None:
            continue
        c = P()
        c["incarnations"][i]["fault"] = None
        yield c
        if f.get("action") != "kill_hard" and "line" not in f:
            c = P()
            c["incarnations"][i]["fault"]["action"] = "kill_hard"
            yield c
        if "keep" in f and f["keep"] != 0:
            c = P()
            c["incarnations"][i]["fault"]["keep"] = 0
            yield c
    for i, inc in enumerate(incs):
        for fld in ("same_runner", "set_rep_max", "regrid"):
            if inc.get(fld):
                c = P()
                c["incarnations"][i].pop(fld)
                yield c
        if inc["call"]["kind"] == "index" and inc["call"]["i"] > 0:
            c = P()
            c["incarnations"][i]["call"]["i"] = 0
            yield c
    cfg = plan["config"]
    # grid
    for nm in sorted(cfg["unpacked"]):
        vals = cfg["unpacked"][nm]["values"]
        c = P()
        spec = c["config"]["unpacked"].pop(nm)
        c["config"]["fixed"][nm] = spec["values"][0]
        if c.get("config2") is not None and nm in c["config2"]["unpacked"]:
            s2 = c["config2"]["unpacked"].pop(nm)
            c["config2"]["fixed"][nm] = s2["values"][0]
        yield c
        if len(vals) > 1:
            for cand in ddmin_candidates(vals, 1):
                c = P()
                c["config"]["unpacked"][nm]["values"] = cand
                yield c
        if cfg["unpacked"][nm].get("array"):
            c = P()
            c["config"]["unpacked"][nm]["array"] = False
            yield c
    for nm in sorted(cfg["fixed"]):
        c = P()
        del c["config"]["fixed"][nm]
        if c.get("config2") is not None:
            c["config2"]["fixed"].pop(nm, None)
        if "{%s}" % nm in (cfg.get("results_name") or ""):
            c["config"]["results_name"] = "res"
            if c.get("config2") is not None:
                c["config2"]["results_name"] = "res"
        yield c
    for r in shrink_int(cfg["rep_max"], 1):
        c = P()
        c["config"]["rep_max"] = r
        if c.get("config2") is not None:
            c["config2"]["rep_max"] = r
        yield c
    # script
    sk = plan["script"].get("skips", [])
    for cand in ddmin_candidates(sk, 0):
        c = P()
        c["script"]["skips"] = cand
        yield c
    if plan["script"].get("durs"):
        c = P()
        c["script"]["durs"] = []
        yield c
    if plan["script"].get("dur_default", 0) != 0:
        c = P()
        c["script"]["dur_default"] = 0.0
        yield c
    if plan["script"].get("kg_form"):
        c = P()
        del c["script"]["kg_form"]
        yield c
    if plan["script"].get("hist"):
        c = P()
        del c["script"]["hist"]
        yield c
        if plan["script"]["hist"] == "reused":
            c = P()
            c["script"]["hist"] = "fresh"
            yield c
    if plan["script"].get("stop", {}).get("kind", "always") != "always":
        c = P()
        c["script"]["stop"] = {"kind": "always"}
        yield c
    if plan.get("clock_faults"):
        for cand in ddmin_candidates(plan["clock_faults"], 0):
            c = P()
            c["clock_faults"] = cand
            yield c
    # cosmetics
    for key, simple in (("ext", ""), ("partial_folder", "partial_results"), ("delete_partials", False),
                        ("buffer", 8192), ("results_name", "res"), ("progress", None), ("unmark", None), ("inherited_rules", False)):
        if cfg.get(key) != simple and not (key == "results_name" and cfg.get(key) is None):
            c = P()
            c["config"][key] = simple
            if c.get("config2") is not None:
                c["config2"][key] = simple
            yield c
    if plan.get("lookups"):
        c = P()
        c["lookups"] = False
        yield c
    # fault position earlier
    for i, inc in enumerate(incs):
        f = inc.get("fault")
        if f is None:
            continue
        key = "line" if "line" in f else "at"
        for n in shrink_int(f[key], 1):
            c = P()
            c["incarnations"][i]["fault"][key] = n
            yield c


def signature_hint(plan):
    return json.dumps(plan.get("incarnations"))[:200]
