"""C14: Jakes fading samples do not depend on how generation was chunked.
The generator is a clock (float time stepping); the simulator drives it with
request/skip histories, jumps the clock (skip) to positions a test could never
wait for, and compares every returned sample with an INTEGER-time reference
model evaluated with the generator's own fixed random phases."""
import copy
import pickle

import numpy as np

from simkit.core import (EventLog, HarnessError, add_violation, bump, ddmin_candidates, new_result, op_time_limit, shrink_int, use_repo)

use_repo()
from pyphysim.channels.fading_generators import JakesSampleGenerator   # noqa: E402

DELTA = 0.01          # tolerated timing error, in samples (legitimate drift is <= 1e-3, a slip is 1)


def warm_up():
    pass


def gen_huge_plan(rng):
    """Few requests, but each one large in rays x shape x samples (5e6 .. 3e7 complex numbers): where an implementation
    would switch to a memory-saving path.  The property's own bound on one request is 1e5 samples."""
    L = rng.choice([16, 32, 64])
    shape = rng.choice([None, 2, [2, 2], [3, 3], [4, 4]])
    nshape = 1 if shape is None else int(np.prod(shape))
    Fd = rng.choice([5.0, 30.0, 100.0])
    Ts = float(10 ** rng.uniform(-6, -3.5)) / Fd * 10.0
    target = 10 ** rng.uniform(6.7, 7.5)
    n = int(max(1, min(100000, target // (L * nshape))))
    ops = []
    if rng.random() < 0.5:
        ops.append({"op": "skip", "n": rng.randint(1, 10 ** 6)})
    ops.append({"op": "generate", "n": n})
    if rng.random() < 0.5:
        ops.append({"op": "generate", "n": rng.randint(1, 50)})
    return {"world": "jakes", "Fd": Fd, "Ts": Ts, "L": L, "shape": shape, "rs_seed": rng.randrange(1 << 31), "ops": ops, "huge": True}


def gen_plan(rng, tier, idx, opts):
    if rng.random() < opts.get("p_huge", 0.0015):
        return gen_huge_plan(rng)
    L = rng.choice([1, 2, 3, 4, 5, 7, 8, 8, 16])
    shape = rng.choice([None, None, 1, 2, 3, [2, 2], [3, 2], [1, 4]])
    nshape = 1 if shape is None else int(np.prod(shape))
    r = rng.random()
    if r < 0.08:
        Fd = 0.0
    else:
        Fd = rng.choice([5.0, 30.0, 100.0, 222.0, 500.0])
    # mostly slowly varying (a one-sample slip is then far above the tolerance), sometimes fast
    if Fd and rng.random() < 0.85:
        cyc = 10 ** rng.uniform(-7, -1.5)          # Fd*Ts, cycles per sample
        Ts = cyc / Fd
    else:
        Ts = 10 ** rng.uniform(-9, 0)
    Ts = float(min(max(Ts, 1e-9), 1.0))
    budget = 50000 if rng.random() < 0.9 else 200000
    nmax = max(1, budget // (L * nshape))
    ops = []
    pos = 1
    nops = rng.randint(1, 40)
    far = rng.random() < 0.5
    bursty = rng.random() < 0.25 and L * nshape <= 16
    for i in range(nops):
        r = rng.random()
        # every call rounds the generator's clock once (<= eps*position samples): (#calls) x position <= 4.5e12 keeps
        # the LEGITIMATE accumulation below 1e-3 sample.  Plans with bursts make up to ~15 000 calls: they stay below 1e8.
        limit = int(1e8) if bursty else int(4.5e12 / nops)
        if r < 0.3 and pos < limit:
            if far and rng.random() < 0.5:
                n = int(10 ** rng.uniform(3, 10))
            else:
                n = int(10 ** rng.uniform(0, 5))
            n = max(1, min(n, limit - pos))
            if rng.random() < 0.04:
                n = 0                                   # a skip of nothing
            ops.append({"op": "skip", "n": n})
            pos += n
        elif r < 0.305 and shape is not None and not bursty:
            ops.append({"op": "set_shape_bad", "v": rng.choice(["neg", "frac", "str", "huge"])})       # a REFUSED shape assignment (same rank): nothing may change
        elif r < 0.315:
            ops.append({"op": "scribble", "factor": rng.choice([2.0, 0.0, -1.0])})     # the caller scales/overwrites IN PLACE what it was handed last
        elif r < 0.33:
            ops.append({"op": "get"})
        elif r < 0.345:
            ops.append({"op": "clone", "how": rng.choice(["copy", "deepcopy", "pickle"]), "use_clone": rng.random() < 0.5, "n": rng.randint(1, 20),
                        "skip_first": rng.choice([0, 0, 1, 7, 1000]), "reshape_other": rng.random() < 0.3})
        elif r < 0.36:
            ops.append({"op": "sibling", "n": rng.randint(1, 20)})     # a similar generator is created and used in between
        elif r < 0.38 and not bursty:
            ops.append({"op": "set_shape", "shape": rng.choice([None, 1, 2, 4, [2, 2], [3, 2], [2, 2, 2]])})
            if rng.random() < 0.35:
                ops[-1]["same"] = True                    # the CURRENT shape is assigned again (the phases are redrawn all the same)
            prev_n = next((o_["n"] for o_ in reversed(ops[:-1]) if o_["op"] == "generate" and o_["n"]), None)
            if prev_n is not None and rng.random() < 0.6:
                ops.append({"op": "generate", "n": prev_n})      # and the next request has the size of the previous one
                pos += prev_n
        elif r < 0.46 and bursty and pos < limit // 2 and sum(1 for o in ops if o["op"] == "burst") < 3:
            # a long run of tiny requests: what a streaming user does, and where per-call drift would accumulate
            cnt = int(10 ** rng.uniform(2, 3.7))
            nn = rng.choice([1, 1, 2, 3])
            ops.append({"op": "burst", "count": cnt, "n": nn})
            pos += cnt * nn
        else:
            if pos > 10 ** 6 and rng.random() < 0.6:
                n = rng.randint(1, 3)          # small requests far out: where float time stepping is most fragile
            elif rng.random() < 0.05:
                n = None
            else:
                n = int(10 ** rng.uniform(0, np.log10(nmax))) if nmax > 1 else 1
                if rng.random() < 0.1:
                    n = rng.choice([L, nshape, L * nshape, 1, 2])      # coincidences of sizes
                elif rng.random() < 0.12:
                    longest = max([o_["n"] for o_ in ops if o_["op"] == "generate" and o_["n"]] or [0])
                    n = longest + rng.choice([1, 1, -1, 0]) if longest > 1 else rng.choice([257, 513, 1025])   # just past the longest request so far / past a power of two
                n = max(1, min(n, nmax))
            ops.append({"op": "generate", "n": n})
            pos += (n or 1)
    if Fd == 0.0 and rng.random() < 0.5:
        # a static channel whose very first delivered sample (the constructor's) is edited in place by the caller
        ops.insert(0, {"op": "scribble", "factor": rng.choice([2.0, 0.0, -1.0])})
    if not any(o["op"] == "generate" for o in ops):
        ops.append({"op": "generate", "n": min(3, nmax)})
    out = {"world": "jakes", "Fd": Fd, "Ts": Ts, "L": L, "shape": shape, "rs_seed": rng.randrange(1 << 31), "ops": ops}
    if isinstance(shape, list) and rng.random() < 0.3:
        out["shape_form"] = rng.choice(["list", "np"])
    return out


def model_samples(phi, psi, Fd, Ts, L, k0, n):
    """h(k*Ts) for k = k0 .. k0+n-1 with integer k (no accumulated time)."""
    if phi.size * n > 2_000_000 and n > 4096:                # bounded memory: the model is evaluated stretch by stretch
        return np.concatenate([model_samples(phi, psi, Fd, Ts, L, k0 + a, min(4096, n - a)) for a in range(0, n, 4096)], axis=-1)
    k = np.arange(k0, k0 + n, dtype=np.float64)           # exact for k < 2**53
    t = (k * Ts).reshape([1] * (phi.ndim - 1) + [n])
    return np.sqrt(1.0 / L) * np.sum(np.exp(1j * (2 * np.pi * Fd * np.cos(phi) * t + psi)), axis=0)


def execute(plan):
    res = new_result()
    log = EventLog()
    pid = plan.get("property", "C14")
    Fd, Ts, L = plan["Fd"], plan["Ts"], plan["L"]
    shape = plan["shape"]
    shp = None if shape is None else (tuple(shape) if isinstance(shape, list) else int(shape))
    rs = np.random.RandomState(plan["rs_seed"])
    shp_arg = shp
    if isinstance(shp, tuple) and plan.get("shape_form") == "list":
        shp_arg = list(shp)                                  # e.g. the shape as it comes out of a JSON configuration
    elif isinstance(shp, tuple) and plan.get("shape_form") == "np":
        shp_arg = tuple(np.int64(x) for x in shp)            # e.g. computed with numpy
    Fd_arg = int(Fd) if (float(Fd).is_integer() and plan["rs_seed"] % 2) else Fd                    # 100 instead of 100.0
    Ts_arg = int(Ts) if (float(Ts).is_integer() and plan["rs_seed"] % 2) else Ts
    L_arg = np.int64(L) if plan["rs_seed"] % 3 == 0 else L
    gen = JakesSampleGenerator(Fd_arg, Ts_arg, L_arg, shape=shp_arg, RS=rs)
    phi = np.array(gen._phi_l, copy=True)      # "the generator's fixed random phases" (named by the property itself)
    psi = np.array(gen._psi_l, copy=True)
    base = () if shp is None else ((shp,) if isinstance(shp, int) else tuple(shp))
    k = 1                                         # the constructor produced sample 0
    tol = np.sqrt(L) * 2 * np.pi * Fd * Ts * DELTA + 1e-9
    last = None
    first_sample = None
    gens = 0
    trig = ["", ""]
    held = []          # (first sample number, the array object as delivered, a private copy): a caller assembling a stretch
                       # from several requests keeps the blocks it received; a later request must not rewrite them

    def hold(k0, arr_):
        if np.size(arr_) <= 4096:
            held.append((k0, arr_, np.array(arr_, copy=True)))
            if len(held) > 3:
                held.pop(0)

    def check_held(step):
        for k0, obj, cp in held:
            if np.shape(obj) != np.shape(cp) or not np.array_equal(np.asarray(obj), cp):
                viol("value", step, "the block delivered for samples %d..%d was rewritten by a later request: a stretch assembled from "
                     "several requests no longer follows the model" % (k0, k0 + cp.shape[-1] - 1), kind="delivered_block_rewritten")
                return False
        return True

    def viol(inv, step, detail, **sig):
        sg = {"far_out": bool(k > 10 ** 6), "small_request": bool(sig.pop("small", False))}
        sg.update(sig)
        add_violation(res, pid + "." + inv, step, detail, sg)

    try:
        s0 = gen.get_samples()
        if np.shape(s0) != base + (1,):
            viol("shape", -1, "constructor sample has shape %s, expected %s" % (np.shape(s0), base + (1,)))
        else:
            first_sample = np.array(s0)[..., 0]
            e0 = model_samples(phi, psi, Fd, Ts, L, 0, 1)
            if np.max(np.abs(np.asarray(s0) - e0)) > tol:
                viol("value", -1, "sample 0 differs from the sum-of-sinusoids model")
    except Exception as e:
        viol("raises", -1, "get_samples after construction raised %s: %s" % (type(e).__name__, e), exc=type(e).__name__)
    for step, op in enumerate(plan["ops"]):
        if res["status"] != "ok":
            break
        o = op["op"]
        try:
            with op_time_limit(60.0):
                if o == "skip":
                    gen.skip_samples_for_next_generation(np.int64(op["n"]) if step % 3 == 1 else op["n"])        # counts often come out of numpy
                    k += op["n"]
                    log.add("skip", op["n"])
                    if op["n"] >= 10 ** 6:
                        bump(res["probes"], "clock_jump_ge_1e6_samples")
                    bump(res["faults"], "clock-jump(skip)")
                elif o == "set_shape_bad":
                    cs = gen.shape
                    if cs is None:
                        continue
                    cs = tuple(int(x) for x in cs)
                    bad = {"neg": cs[:-1] + (-1,), "frac": cs[:-1] + (1.5,), "str": "a" if len(cs) == 1 else cs[:-1] + ("a",),
                           "huge": cs[:-1] + (10 ** 13,)}[op["v"]]           # well-formed, but far beyond any memory
                    try:
                        gen.shape = bad
                        accepted = True
                    except Exception:       # noqa: BLE001
                        accepted = False
                        bump(res["faults"], "rejected-setter")
                    if accepted:
                        viol("shape", step, "the inadmissible shape %r was accepted" % (bad,), kind="accepted")
                        break
                    got_shape = gen.shape
                    try:
                        same_shape = got_shape is not None and tuple(int(x) for x in got_shape) == cs
                    except (TypeError, ValueError):
                        same_shape = False
                    if not same_shape:
                        # F25 (repaired): the generator must not report a shape it refused
                        viol("shape", step, "after the REFUSED assignment of %r the generator reports shape %r (it was %r and still produces samples of that shape)" % (
                            bad, got_shape, cs), kind="refused_shape_kept")
                        break
                    elif not (np.array_equal(gen._phi_l, phi) and np.array_equal(gen._psi_l, psi)):
                        viol("phases", step, "a REFUSED shape assignment (%r, shape still %r) redrew the generator's random phases" % (bad, cs))
                        break
                    log.add(o, op["v"])
                elif o == "scribble":
                    arr_ = gen.get_samples()
                    try:
                        arr_ *= op["factor"]              # e.g. `h *= gain`: the array belongs to the caller now
                        wrote = True
                    except ValueError:
                        wrote = False                     # handed out read-only: nothing can be changed, fine too
                    if wrote:
                        last = np.array(arr_, copy=True)
                        held[:] = [hh for hh in held if hh[1] is not arr_]
                        bump(res["probes"], "caller_wrote_into_the_delivered_samples")
                    log.add("scribble", op["factor"], wrote)
                elif o == "get":
                    s = gen.get_samples()
                    if last is not None and (np.shape(s) != np.shape(last) or not np.array_equal(s, last)):
                        viol("value", step, "get_samples() changed without a new request")
                    log.add("get")
                elif o == "set_shape":
                    ns = op["shape"]
                    if op.get("same"):
                        cs = gen.shape
                        ns = None if cs is None else [int(x) for x in cs]
                    if ns is not None and L * int(np.prod(ns)) > 64:
                        continue
                    gen.shape = None if ns is None else (tuple(ns) if isinstance(ns, list) else int(ns))
                    shp2 = gen.shape
                    base = () if shp2 is None else tuple(shp2)
                    phi = np.array(gen._phi_l, copy=True)          # documented: the phases are redrawn on a shape change
                    psi = np.array(gen._psi_l, copy=True)
                    last = None
                    first_sample = None
                    if not check_held(step):
                        break
                    log.add("set_shape", ns)
                    bump(res["probes"], "shape_changed_through_the_setter")
                elif o == "sibling":
                    g2 = gen.get_similar_fading_generator()
                    phi2, psi2 = np.array(g2._phi_l, copy=True), np.array(g2._psi_l, copy=True)
                    g2.generate_more_samples(op["n"])
                    s2 = g2.get_samples()
                    # the sibling is a Jakes generator of its own: its samples follow the model for ITS phases (it starts at sample 1)
                    if np.shape(s2) != base + (op["n"],):
                        viol("shape", step, "similar generator returned shape %s for a request of %d" % (np.shape(s2), op["n"]))
                        break
                    if np.shape(phi2) == np.shape(phi):
                        e2 = float(np.max(np.abs(np.asarray(s2) - model_samples(phi2, psi2, Fd, Ts, L, 1, op["n"]))))
                        if not (e2 <= tol):
                            viol("value", step, "samples of a similar generator do not follow the model for its own phases: |h - model| = %.3g > %.3g" % (e2, tol), kind="sibling")
                            break
                    if op["n"] % 2 == 0:
                        # a similar generator of the similar generator: again a Jakes process of its own, with its own phases
                        g3 = g2.get_similar_fading_generator()
                        phi3, psi3 = np.array(g3._phi_l, copy=True), np.array(g3._psi_l, copy=True)
                        g3.generate_more_samples(op["n"])
                        s3 = g3.get_samples()
                        if np.shape(s3) != base + (op["n"],):
                            viol("shape", step, "a second-generation similar generator returned shape %s for a request of %d" % (np.shape(s3), op["n"]))
                            break
                        if np.shape(phi3) == np.shape(phi):
                            e3 = float(np.max(np.abs(np.asarray(s3) - model_samples(phi3, psi3, Fd, Ts, L, 1, op["n"]))))
                            if not (e3 <= tol):
                                viol("value", step, "samples of a second-generation similar generator do not follow the model for its own phases: |h - model| = %.3g > %.3g" % (e3, tol), kind="sibling")
                                break
                            if phi.size > 1 and (np.array_equal(phi3, phi2) or np.array_equal(phi3, phi)):
                                viol("phases", step, "a second-generation similar generator shares the phases of an ancestor")
                                break
                        if not (np.array_equal(g2._phi_l, phi2) and np.array_equal(g2._psi_l, psi2)):
                            viol("phases", step, "creating/using a similar generator changed ITS parent's random phases")
                            break
                        bump(res["probes"], "second_generation_sibling_used")
                    g2.skip_samples_for_next_generation(op["n"])
                    if np.shape(g2._phi_l) == np.shape(phi) and phi.size > 1 and np.array_equal(g2._phi_l, phi):
                        viol("phases", step, "a similar generator shares this generator's random phases")
                        break
                    if not (np.array_equal(gen._phi_l, phi) and np.array_equal(gen._psi_l, psi)):
                        viol("phases", step, "creating/using a similar generator changed this generator's random phases")
                        break
                    log.add("sibling", op["n"])
                    bump(res["probes"], "sibling_generator_used")
                elif o == "clone":
                    how = op["how"]
                    if how == "copy":
                        g2 = copy.copy(gen)
                    elif how == "deepcopy":
                        g2 = copy.deepcopy(gen)
                    else:
                        g2 = pickle.loads(pickle.dumps(gen))
                    other, gen = (gen, g2) if op["use_clone"] else (g2, gen)
                    # the object that is NOT used further makes one request: it continues the same process from the same
                    # position, and whatever it does must not disturb the one that is used further
                    if op.get("reshape_other") and other.shape is not None:
                        # the object that is not used further has its CURRENT shape assigned again (its phases are redrawn, as
                        # documented); that is its own business and must not reach the object that IS used further
                        other.shape = tuple(int(x) for x in other.shape)
                        other_redrawn = True
                    else:
                        other_redrawn = False
                    sk = int(op.get("skip_first") or 0)
                    if sk:
                        other.skip_samples_for_next_generation(sk)
                    other.generate_more_samples(op["n"])
                    s2 = other.get_samples()
                    if np.shape(s2) != base + (op["n"],):
                        viol("shape", step, "a %s of the generator returned shape %s for a request of %d" % (how, np.shape(s2), op["n"]), kind="clone")
                        break
                    if other_redrawn and other is not gen:
                        ph_o, ps_o = np.array(other._phi_l, copy=True), np.array(other._psi_l, copy=True)
                    else:
                        ph_o, ps_o = phi, psi
                    if other_redrawn and other is gen:
                        pass
                    e2 = float(np.max(np.abs(np.asarray(s2) - model_samples(ph_o, ps_o, Fd, Ts, L, k + sk, op["n"]))))
                    if not (e2 <= tol):
                        viol("value", step, "a %s of the generator taken at position %d does not continue the same process: |h - model| = %.3g > %.3g" % (how, k, e2, tol), kind="clone")
                        break
                    if not (np.array_equal(gen._phi_l, phi) and np.array_equal(gen._psi_l, psi)):
                        viol("phases", step, "cloning (%s) changed the generator's random phases" % how)
                        break
                    if not check_held(step):
                        break
                    log.add("clone", how, op["use_clone"], op["n"])
                    bump(res["probes"], "generator_cloned_by_" + how)
                elif o == "burst":
                    nn = op["n"]
                    for b in range(op["count"]):
                        gen.generate_more_samples(nn)
                        if b % 16 == 0 or b >= op["count"] - 2:
                            sb = gen.get_samples()
                            if np.shape(sb) != base + (nn,):
                                viol("shape", step, "request %d of a burst (n=%d) at position %d returned shape %s" % (b, nn, k, np.shape(sb)), small=True)
                                break
                            expb = model_samples(phi, psi, Fd, Ts, L, k, nn)
                            errb = float(np.max(np.abs(np.asarray(sb) - expb)))
                            if not (errb <= tol):
                                viol("value", step, "request %d of a burst of %d requests of %d samples, position %d: |h - model| = %.3g > %.3g" % (
                                    b, op["count"], nn, k, errb, tol), small=True, kind="burst")
                                break
                        k += nn
                    if res["status"] != "ok":
                        break
                    gens += 1
                    if not check_held(step):
                        break
                    last = np.array(gen.get_samples(), copy=True)
                    hold(k - nn, gen.get_samples())
                    log.add("burst", op["count"], nn, k)
                    bump(res["probes"], "burst_of_small_requests")
                elif o == "generate":
                    n = op["n"]
                    nn = 1 if n is None else n
                    small = nn <= 3 and k > 10 ** 6
                    if n is None:
                        gen.generate_more_samples()
                    else:
                        gen.generate_more_samples(np.int64(n) if step % 4 == 1 else n)
                    s = gen.get_samples()
                    gens += 1
                    if np.shape(s) != base + (nn,):
                        viol("shape", step, "request for %d samples at position %d returned shape %s, expected %s" % (nn, k, np.shape(s), base + (nn,)), small=small)
                        break
                    exp = model_samples(phi, psi, Fd, Ts, L, k, nn)
                    err = float(np.max(np.abs(np.asarray(s) - exp)))
                    if not (err <= tol):
                        j = int(np.argmax(np.max(np.abs(np.asarray(s) - exp).reshape(-1, nn), axis=0)))
                        viol("value", step, "sample %d (request of %d at position %d, Fd*Ts=%.3g): |h - model| = %.3g > %.3g (a one-sample slip is about %.3g)" % (
                            k + j, nn, k, Fd * Ts, err, tol, min(2.0, 2 * np.pi * Fd * Ts) * np.sqrt(L) * 0.6), small=small, kind="value")
                        break
                    if np.max(np.abs(s)) > np.sqrt(L) * (1 + 1e-12) + 1e-12:
                        viol("bound", step, "|h| = %.6g exceeds sqrt(L) = %.6g" % (float(np.max(np.abs(s))), np.sqrt(L)))
                        break
                    if Fd == 0.0 and first_sample is not None:
                        if np.max(np.abs(np.asarray(s) - first_sample[..., None])) > 1e-12:
                            viol("static", step, "zero Doppler but the channel changed over time")
                            break
                    if not (np.array_equal(gen._phi_l, phi) and np.array_equal(gen._psi_l, psi)):
                        viol("phases", step, "the generator's random phases changed during generation")
                        break
                    if not check_held(step):
                        break
                    hold(k, s)
                    if len(held) >= 2 and held[-2][2].shape == np.shape(s):
                        bump(res["probes"], "equal_size_request_while_previous_block_held")
                    last = np.array(s, copy=True)
                    log.add("generate", nn, k, np.round(np.asarray(s).ravel()[:4], 6))
                    if L * max(1, int(np.prod(base))) * nn > 2 ** 22:
                        bump(res["probes"], "request_above_4M_ray_samples")
                    if small:
                        bump(res["probes"], "small_request_far_out")
                    if k > 10 ** 9:
                        bump(res["probes"], "request_beyond_1e9_samples")
                    res["sim_time"] += nn * Ts
                    k += nn
                else:
                    raise HarnessError("unknown op %r" % (op,))
        except HarnessError:
            raise
        except Exception as e:
            nn = op.get("n") or 1
            viol("raises", step, "%s(%s) at position %d (Ts=%.3g) raised %s: %s" % (o, op.get("n"), k, Ts, type(e).__name__, str(e)[:160]),
                 exc=type(e).__name__, small=bool(o == "generate" and nn <= 3 and k > 10 ** 6))
            break
        trig = [trig[1], o[0]]
        res["state_keys"].append("%s%s%s|pos=1e%d|n=1e%d" % (trig[0], trig[1], o[0], int(np.log10(max(k, 1))), int(np.log10(max(op.get("n") or 1, 1)))))
    res["digest"] = log.digest()
    res["steps"] = log.seq
    res["sim_time"] = float(k * Ts)
    res["nontrivial"] = gens >= 1 and len(plan["ops"]) >= 2
    return res


def shrink(plan):
    P = lambda: copy.deepcopy(plan)   # noqa: E731
    for cand in ddmin_candidates(plan["ops"], 1):
        c = P()
        c["ops"] = cand
        yield c
    if plan["shape"] is not None:
        c = P()
        c["shape"] = None
        yield c
    if plan["L"] > 1:
        c = P()
        c["L"] = 1
        yield c
    for i, op in enumerate(plan["ops"]):
        if op.get("n") and op["n"] > 1:
            for n in shrink_int(op["n"], 1):
                c = P()
                c["ops"][i]["n"] = n
                yield c
            p10 = 10 ** int(np.log10(op["n"]))
            if p10 != op["n"]:
                c = P()
                c["ops"][i]["n"] = p10
                yield c
