"""C15 (history clause): constellations stay Gray labelled after any sequence
of setPhaseOffset calls.  State machine {construct; setPhaseOffset*}; after
every step every pair of symbols at minimum distance must carry labels that
differ in exactly one bit.  The Gray/binary conversions and bit counting are
pure functions and are NOT decided here."""
import copy
import math

import numpy as np

from simkit.core import (EventLog, HarnessError, add_violation, bump, ddmin_candidates, new_result, op_time_limit, use_repo)

use_repo()
from pyphysim.modulators import fundamental as MOD   # noqa: E402


def warm_up():
    pass


def gen_plan(rng, tier, idx, opts):
    r = rng.random()
    big = [2048, 4096] if tier == "thorough" else []
    if r < 0.55:
        cls = "PSK"
        M = rng.choice([2, 4, 8, 16, 32, 64, 128, 256, 512, 1024] + big)
    elif r < 0.85:
        cls = "QAM"
        M = rng.choice([4, 16, 64, 256, 1024] + ([4096] if tier == "thorough" else []))
    elif r < 0.93:
        cls, M = "QPSK", 4
    else:
        cls, M = "BPSK", 2
    phi0 = rng.choice([0.0, 0.0, math.pi / 4, math.pi / M if M else 0.0, rng.uniform(-7, 7)])
    ops = []
    if cls in ("PSK", "QPSK"):
        for _ in range(rng.randint(0, 6)):
            ops.append({"op": "setPhaseOffset", "phi": rng.choice([0.0, math.pi / 4, math.pi / 8, -math.pi / 2, rng.uniform(-10, 10), phi0])})
    return {"world": "labels", "cls": cls, "M": M, "phi0": phi0, "ops": ops}


def non_gray_pairs(symbols):
    """Number of ordered pairs at minimum distance and how many of them have labels differing in != 1 bit."""
    s = np.asarray(symbols, dtype=complex)
    M = s.size
    if M < 2:
        return 0, 0, None
    # minimum distance
    dmin = np.inf
    for a in range(0, M, 512):
        d = np.abs(s[a:a + 512, None] - s[None, :])
        d[np.arange(d.shape[0]), np.arange(a, a + d.shape[0])] = np.inf
        dmin = min(dmin, float(d.min()))
    pairs = bad = 0
    example = None
    for a in range(0, M, 512):
        d = np.abs(s[a:a + 512, None] - s[None, :])
        d[np.arange(d.shape[0]), np.arange(a, a + d.shape[0])] = np.inf
        ii, jj = np.nonzero(d <= dmin * (1 + 1e-9))
        ii = ii + a
        x = np.bitwise_xor(ii, jj)
        pc = np.array([bin(int(v)).count("1") for v in x]) if x.size < 5000 else _popcount(x)
        pairs += int(ii.size)
        nb = int(np.count_nonzero(pc != 1))
        if nb and example is None:
            k = int(np.nonzero(pc != 1)[0][0])
            example = (int(ii[k]), int(jj[k]), int(pc[k]))
        bad += nb
    return pairs, bad, example


def _popcount(x):
    x = x.astype(np.uint64)
    c = np.zeros(x.shape, dtype=np.int64)
    while np.any(x):
        c += (x & np.uint64(1)).astype(np.int64)
        x = x >> np.uint64(1)
    return c


def execute(plan):
    res = new_result()
    log = EventLog()
    pid = plan.get("property", "C15")
    cls, M = plan["cls"], plan["M"]
    fam = "PSK" if cls in ("PSK", "QPSK") else cls
    last_mut = None

    def check(step):
        try:
            pairs, bad, ex = non_gray_pairs(mod.symbols)
        except Exception as e:
            raise HarnessError("adjacency oracle failed: %s" % e)
        log.add("check", step, pairs, bad)
        res["state_keys"].append("%s|M=%d|mut=%s|bad=%s" % (cls, M, last_mut, bad > 0))
        if bad:
            add_violation(res, pid + ".gray_adjacent", step,
                          "%s(M=%d)%s: %d of %d ordered nearest-neighbour pairs carry labels differing in more than one bit (e.g. labels %d and %d differ in %d bits)" % (
                              cls, M, "" if last_mut is None else " after " + last_mut, bad, pairs, ex[0], ex[1], ex[2]),
                          {"class": fam, "M": M, "last_mutator": last_mut}, cap=8)
        if not bad and M <= 256:
            # the same statement, operationally: label i is sent, the channel moves it onto a nearest neighbour j, the
            # receiver decides; the decision must cost exactly one bit.  (Also the first use of the demodulator, so that a
            # later change of the constellation meets whatever the demodulator keeps.)
            sym = np.array(mod.symbols, dtype=complex)
            dec = np.asarray(mod.demodulate(sym.copy())).astype(np.int64).ravel()
            d = np.abs(sym[:, None] - sym[None, :])
            np.fill_diagonal(d, np.inf)
            ii, jj = np.nonzero(d <= d.min() * (1 + 1e-9))
            cost = np.array([bin(int(a) ^ int(dec[b])).count("1") for a, b in zip(ii, jj)])
            nb = int(np.count_nonzero(cost != 1))
            bump(res["probes"], "nearest_neighbour_errors_decided")
            if dec.shape != (M,) or nb:
                k0 = int(np.nonzero(cost != 1)[0][0]) if nb else 0
                add_violation(res, pid + ".gray_adjacent", step,
                              "%s(M=%d)%s: the table is Gray, but %d of %d nearest-neighbour errors cost a number of bits other than one when decided by "
                              "demodulate() (e.g. label %d received at the point of label %d is decided as %d)" % (
                                  cls, M, "" if last_mut is None else " after " + last_mut, nb, ii.size, int(ii[k0]), int(jj[k0]), int(dec[jj[k0]])),
                              {"class": fam, "M": M, "last_mutator": last_mut, "via": "demodulate"}, cap=8)
        if len(mod.symbols) != M:
            add_violation(res, pid + ".table_size", step, "constellation has %d points, M=%d" % (len(mod.symbols), M), {"class": fam})
    try:
        with op_time_limit(60.0):
            if cls == "PSK":
                mod = MOD.PSK(M, plan["phi0"])
            elif cls == "QAM":
                mod = MOD.QAM(M)
            elif cls == "QPSK":
                mod = MOD.QPSK()
            elif cls == "BPSK":
                mod = MOD.BPSK()
            else:
                raise HarnessError("unknown class")
    except HarnessError:
        raise
    except Exception as e:
        add_violation(res, pid + ".raises", -1, "constructing %s(%d) raised %s: %s" % (cls, M, type(e).__name__, e), {"class": fam, "op": "construct"})
        res["digest"] = log.digest()
        return res
    log.add("construct", cls, M, plan["phi0"])
    check(-1)
    for step, op in enumerate(plan["ops"]):
        try:
            with op_time_limit(60.0):
                if op["op"] == "setPhaseOffset":
                    mod.setPhaseOffset(op["phi"])
                    last_mut = "setPhaseOffset"
                    bump(res["probes"], "phase_offset_changed")
                else:
                    raise HarnessError("unknown op")
        except HarnessError:
            raise
        except Exception as e:
            add_violation(res, pid + ".raises", step, "%s raised %s: %s" % (op["op"], type(e).__name__, e), {"class": fam, "op": op["op"]})
            break
        log.add(op["op"], op.get("phi"))
        check(step)
    res["digest"] = log.digest()
    res["steps"] = log.seq
    res["nontrivial"] = len(plan["ops"]) >= 1 or M >= 16
    return res


def shrink(plan):
    P = lambda: copy.deepcopy(plan)   # noqa: E731
    for cand in ddmin_candidates(plan["ops"], 0):
        c = P()
        c["ops"] = cand
        yield c
    if plan["cls"] == "PSK" and plan["M"] > 2:
        c = P()
        c["M"] = plan["M"] // 2
        yield c
    if plan["cls"] == "QAM" and plan["M"] > 4:
        c = P()
        c["M"] = plan["M"] // 4
        yield c
    if plan["phi0"] != 0.0:
        c = P()
        c["phi0"] = 0.0
        yield c
    for i, op in enumerate(plan["ops"]):
        if op.get("phi") not in (0.0, None):
            c = P()
            c["ops"][i]["phi"] = 0.0
            yield c
