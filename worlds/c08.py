"""C08: multi-user channel matrix views stay coherent across any sequence of
updates.  History machine over one channel object (plain or with external
interference); random sources sit behind the object's re-seedable RandomStates
(real seams); the reference model recomputes every view from scratch from the
raw matrix and the CURRENT path loss after every operation."""
import copy

import numpy as np

from simkit.core import (EventLog, HarnessError, add_violation, bump, ddmin_candidates, new_result, op_time_limit, use_repo)

use_repo()
from pyphysim.channels.multiuser import MultiUserChannelMatrix, MultiUserChannelMatrixExtInt  # noqa: E402

TOL = 1e-11


def warm_up():
    pass


def arr(spec, complex_=True, positive=False):
    rs = np.random.RandomState(spec["np_seed"])
    shape = tuple(spec["shape"])
    if positive:
        if spec.get("dtype") == "int":
            return rs.randint(1, 4, size=shape)                      # e.g. np.ones((K, K), dtype=int): "no path loss between the users"
        if spec.get("dtype") == "float32":
            return (rs.uniform(1e-4, 2.0, size=shape) * spec.get("scale", 1.0)).astype(np.float32)
        return rs.uniform(1e-4, 2.0, size=shape) * spec.get("scale", 1.0)
    if complex_:
        return (rs.randn(*shape) + 1j * rs.randn(*shape)) * spec.get("scale", 1.0)
    return rs.randn(*shape) * spec.get("scale", 1.0)


def model_randn_c(seed, rows, cols):
    rs = np.random.RandomState(seed)
    return (1.0 / np.sqrt(2.0)) * (rs.randn(rows, cols) + 1j * rs.randn(rows, cols))


# --------------------------------------------------------------------------
# plans
# --------------------------------------------------------------------------
def gen_dims(rng, K, extK):
    Nr = [rng.randint(1, 4) for _ in range(K)]
    Nt = [rng.randint(1, 4) for _ in range(K)]
    NtE = [rng.choice([1, 1, 2, 2, 0]) for _ in range(extK)]       # a source may be switched off (no antennas): the end of an interference-rank sweep
    return Nr, Nt, NtE


def gen_plan(rng, tier, idx, opts):
    ext = rng.random() < 0.5
    K = rng.randint(1, 4)
    K0 = K
    extK = rng.randint(1, 2) if ext else 0
    ops = []
    Nr, Nt, NtE = gen_dims(rng, K, extK)
    seed_ctr = [rng.randrange(1 << 30)]

    def s():
        seed_ctr[0] += 1
        return seed_ctr[0]

    def dim_op():
        nonlocal Nr, Nt, NtE
        if rng.random() < 0.5:
            Nr, Nt, NtE = gen_dims(rng, K, extK)
        if rng.random() < 0.6:
            return {"op": "randomize", "Nr": Nr, "Nt": Nt, "NtE": NtE, "seed": s(), "int_args": False}
        return {"op": "init", "Nr": Nr, "Nt": Nt, "NtE": NtE,
                "M": {"shape": [sum(Nr), sum(Nt) + sum(NtE)], "np_seed": s()}}
    ops.append(dim_op())
    has_filter = False
    reads = ["H", "big_H", "get_Hkl", "get_Hk", "pathloss"] + (["big_H_no_ext_int", "get_Hk_without_ext_int"] if ext else [])
    n = rng.randint(3, 25)
    for _ in range(n):
        r = rng.random()
        if r < 0.04:
            # the number of users changes: the statement needs a path loss that is still meaningful, so the
            # re-dimensioning is immediately followed by a new path loss (or None) and a new post filter (or None)
            K = rng.randint(1, 4)
            Nr, Nt, NtE = gen_dims(rng, K, extK)
            o = dim_op()
            o["K"] = K
            ops.append(o)
            if rng.random() < 0.3:
                ops.append({"op": "set_pathloss", "pl": None})
            else:
                o2 = {"op": "set_pathloss", "pl": {"shape": [K, K], "np_seed": s(), "scale": 1.0}}
                if ext:
                    o2["ext"] = {"shape": [K, extK], "np_seed": s(), "scale": 1.0}
                ops.append(o2)
            ops.append({"op": "post_filter", "seed": s() if rng.random() < 0.5 else None})
            has_filter = ops[-1]["seed"] is not None
            continue
        if r < 0.12:
            old = list(Nr)
            ops.append(dim_op())
            if has_filter and old != Nr:
                if rng.random() < 0.7:
                    ops.append({"op": "post_filter", "seed": s()})
                else:
                    ops.append({"op": "post_filter", "seed": None})
                    has_filter = False
        elif r < 0.34:
            if rng.random() < 0.2:
                ops.append({"op": "set_pathloss", "pl": None})
            else:
                o = {"op": "set_pathloss", "pl": {"shape": [K, K], "np_seed": s(), "scale": rng.choice([1.0, 1e-3, 1e-6, 1e-9, 1e-12])}}       # linear path losses of -90..-120 dB are the realistic ones
                if rng.random() < 0.2:
                    o["pl"]["dtype"] = rng.choice(["int", "float32"])   # the two matrices need not have the same dtype
                if ext:
                    o["ext"] = {"shape": [K, extK], "np_seed": s(), "scale": rng.choice([1.0, 1e-3])}
                    if rng.random() < 0.1:
                        o["ext"]["dtype"] = rng.choice(["int", "float32"])
                ops.append(o)
        elif r < 0.42:
            ops.append({"op": "noise_var", "v": rng.choice([None, 0.0, 1e-3, 0.5, 2.0, -1.0])})
        elif r < 0.50:
            if rng.random() < 0.25:
                ops.append({"op": "post_filter", "seed": None})
                has_filter = False
            elif has_filter and rng.random() < 0.3:
                # the caller edits the container it passed before and passes the SAME object again
                ops.append({"op": "post_filter", "seed": s(), "same_object": True})
            else:
                ops.append({"op": "post_filter", "seed": s()})
                has_filter = True
        elif r < 0.515:
            # a REFUSED re-initialisation (the matrix fits the antenna counts, the number of users does not): nothing may change
            ops.append({"op": "init_bad", "K_bad": rng.choice([kk for kk in (1, 2, 3, 4, 5) if kk != K]), "np_seed": s()})
        elif r < 0.53:
            # the caller re-initialises from the SAME ndarray object it handed before, split differently among the users
            def part(total, k):
                cuts = sorted(rng.sample(range(1, total), k - 1)) if k > 1 else []
                return [b - a for a, b in zip([0] + cuts, cuts + [total])]
            if sum(Nr) >= K and sum(Nt) >= K:
                old = list(Nr)
                Nr, Nt = part(sum(Nr), K), part(sum(Nt), K)
                ops.append({"op": "init", "Nr": Nr, "Nt": Nt, "NtE": NtE, "reuse_handed": True,
                            "M": {"shape": [sum(Nr), sum(Nt) + sum(NtE)], "np_seed": s()}})
                if has_filter and old != Nr:
                    ops.append({"op": "post_filter", "seed": s() if rng.random() < 0.6 else None})
                    has_filter = ops[-1]["seed"] is not None
        elif r < 0.76:
            ops.append({"op": "read", "what": rng.choice(reads)})
        elif r < 0.80:
            ops.append({"op": "scribble", "factor": rng.choice([2.0, -1.0, 0.5])})   # caller reuses the buffer it passed to init
        else:
            ops.append({"op": "corrupt", "seed": s(), "ncols": rng.randint(1, 4), "noise_seed": s(), "concat": rng.random() < 0.4})
    ops.append({"op": "read", "what": "big_H"})
    ops.append({"op": "read", "what": "H"})
    return {"world": "muchannel", "cls": "extint" if ext else "plain", "K": K0, "extK": extK, "ops": ops}


# --------------------------------------------------------------------------
# execution
# --------------------------------------------------------------------------
class Model:
    def __init__(self):
        self.raw = None
        self.Nr = self.Nt = self.NtE = None
        self.pl = None            # K x (K + extK), the CURRENT path loss
        self.noise_var = None
        self.W = None
        self.W_valid = True
        self.pl_valid = True

    def big(self):
        if self.pl is None:
            return self.raw
        rows = np.repeat(self.pl, self.Nr, axis=0)
        full = np.repeat(rows, list(self.Nt) + list(self.NtE), axis=1)
        return self.raw * np.sqrt(full)

    def block(self, k, l):
        cr = np.concatenate([[0], np.cumsum(self.Nr)])
        ct = np.concatenate([[0], np.cumsum(list(self.Nt) + list(self.NtE))])
        return self.big()[cr[k]:cr[k + 1], ct[l]:ct[l + 1]]


def near(a, b, tol=TOL):
    a = np.asarray(a)
    b = np.asarray(b)
    if a.shape != b.shape:
        return False
    if a.size == 0:
        return True
    return bool(np.all(np.abs(a - b) <= tol * (1.0 + np.abs(b))))


def execute(plan):
    res = new_result()
    log = EventLog()
    pid = plan.get("property", "C08")
    ext = plan["cls"] == "extint"
    K, extK = plan["K"], plan["extK"]
    ch = MultiUserChannelMatrixExtInt() if ext else MultiUserChannelMatrix()
    m = Model()
    mutations = 0
    last_mut = None
    held_out = []
    twin = {"ch": None, "snap": None}      # a second channel object initialised from the SAME antenna-count arrays (plain class only)

    def twin_views(c2):
        return (np.array(c2.big_H, copy=True), [np.array(c2.get_Hk(k_), copy=True) for k_ in range(c2.K)], [int(x) for x in c2.Nr], [int(x) for x in c2.Nt])

    def twin_same(a, b):
        return (a[0].shape == b[0].shape and np.array_equal(a[0], b[0]) and len(a[1]) == len(b[1])
                and all(x.shape == y.shape and np.array_equal(x, y) for x, y in zip(a[1], b[1])) and a[2] == b[2] and a[3] == b[3])
    reads_since = []

    def viol(inv, step, detail, **sig):
        s = {"cls": plan["cls"], "last_mutator": last_mut}
        s.update(sig)
        add_violation(res, pid + "." + inv, step, detail, s)

    def check_views(step, which):
        """Compare the requested view(s) of the real object with the model."""
        if m.raw is None:
            return
        E = m.big()
        KT = K + extK
        if which in ("H", "all"):
            H = ch.H
            if H.shape != (K, KT):
                viol("views", step, "H has shape %s, expected %s" % (H.shape, (K, KT)), view="H")
                return
            for k in range(K):
                for l in range(KT):
                    if not near(H[k, l], m.block(k, l)):
                        viol("views", step, "H[%d,%d] is not raw*sqrt(current path loss): max err %.3g" % (
                            k, l, float(np.max(np.abs(np.asarray(H[k, l]) - m.block(k, l)))) if np.asarray(H[k, l]).shape == m.block(k, l).shape else -1), view="H")
                        return
        if which in ("big_H", "all"):
            B = ch.big_H
            if not near(B, E):
                viol("views", step, "big_H differs from raw*sqrt(current path loss) (shape %s vs %s, max err %s)" % (
                    np.shape(B), E.shape, float(np.max(np.abs(B - E))) if np.shape(B) == E.shape else "n/a"), view="big_H")
                return
        if which in ("get_Hkl", "all"):
            for k in range(K):
                for l in range(KT):
                    if not near(ch.get_Hkl(k, l), m.block(k, l)):
                        viol("views", step, "get_Hkl(%d,%d) differs from the sub-block of the current global matrix" % (k, l), view="get_Hkl")
                        return
        if which in ("get_Hk", "all"):
            cr = np.concatenate([[0], np.cumsum(m.Nr)])
            for k in range(K):
                if not near(ch.get_Hk(k), E[cr[k]:cr[k + 1], :]):
                    viol("views", step, "get_Hk(%d) differs from the rows of receiver %d in the current global matrix" % (k, k), view="get_Hk")
                    return
        if ext and which in ("big_H_no_ext_int", "all"):
            if not near(ch.big_H_no_ext_int, E[:, :sum(m.Nt)]):
                viol("views", step, "big_H_no_ext_int differs from the user columns of the current global matrix", view="big_H_no_ext_int")
                return
        if ext and which in ("get_Hk_without_ext_int", "all"):
            cr = np.concatenate([[0], np.cumsum(m.Nr)])
            for k in range(K):
                if not near(ch.get_Hk_without_ext_int(k), E[cr[k]:cr[k + 1], :sum(m.Nt)]):
                    viol("views", step, "get_Hk_without_ext_int(%d) differs from the current global matrix" % k, view="get_Hk_without_ext_int")
                    return
        if which in ("pathloss", "all"):
            p = ch.pathloss
            if (p is None) != (m.pl is None) or (p is not None and not near(p, m.pl)):
                viol("views", step, "pathloss property %s is not the path loss set last %s" % (
                    None if p is None else np.shape(p), None if m.pl is None else m.pl.shape), view="pathloss")
                return

    for step, op in enumerate(plan["ops"]):
        kind = op["op"]
        if res["status"] != "ok":
            break
        try:
            cache = "%d%d%d" % (ch._H_with_pathloss is not None, ch._big_H_with_pathloss is not None, ch._big_W is not None)
        except AttributeError:
            cache = "???"
        try:
            with op_time_limit(10.0):
                if kind in ("randomize", "init"):
                    Nr, Nt, NtE = np.array(op["Nr"]), np.array(op["Nt"]), np.array(op["NtE"], dtype=int)
                    old_Nr = None if m.Nr is None else list(m.Nr)
                    if op.get("K") is not None and op["K"] != K:
                        K = op["K"]
                        m.pl_valid = False          # until the next set_pathloss
                        bump(res["probes"], "number_of_users_changed")
                    sd_ = op["seed"] if kind == "randomize" else op["M"]["np_seed"]
                    # documented: "NtE : int | list[int] | np.ndarray"
                    nte_arg = NtE
                    if ext and len(NtE) == 1 and sd_ % 2 == 0:
                        nte_arg = int(NtE[0])
                    elif ext and sd_ % 3 == 0:
                        nte_arg = [int(x) for x in NtE]
                    elif ext and sd_ % 3 == 1:
                        nte_arg = tuple(int(x) for x in NtE)          # "if NtE is an iterable ..."
                    if kind == "randomize":
                        ch.set_channel_seed(op["seed"])
                        same = len(set(op["Nr"])) == 1 and len(set(op["Nt"])) == 1 and op["seed"] % 2 == 0
                        a_r, a_t = (int(op["Nr"][0]), int(op["Nt"][0])) if same else (Nr, Nt)      # equal antennas may be given as plain ints
                        if not same and op["seed"] % 5 == 0:
                            # plain Python lists: a tree may refuse them (the pinned one does, at once) or accept them; if it
                            # refuses, NOTHING may have changed, and the caller then passes arrays
                            snap_ok = m.raw is not None and m.pl_valid
                            try:
                                if ext:
                                    ch.randomize(list(op["Nr"]), list(op["Nt"]), K, nte_arg)
                                else:
                                    ch.randomize(list(op["Nr"]), list(op["Nt"]), K)
                                lists_ok = True
                            except (AttributeError, TypeError, ValueError):
                                lists_ok = False
                                bump(res["faults"], "rejected-setter")
                                if snap_ok and K == (len(m.Nr) if m.Nr is not None else K):
                                    check_views(step, "all")
                                    if res["status"] != "ok":
                                        res["violations"][-1]["detail"] = "after randomize() refused plain lists: " + res["violations"][-1]["detail"]
                                        break
                                ch.set_channel_seed(op["seed"])
                            if lists_ok:
                                bump(res["probes"], "randomize_accepted_plain_lists")
                                a_r = a_t = None
                        if a_r is None:
                            pass                                    # already randomised through the list form
                        elif ext:
                            ch.randomize(a_r, a_t, K, nte_arg)
                        else:
                            ch.randomize(a_r, a_t, K)
                        m.raw = model_randn_c(op["seed"], int(Nr.sum()), int(Nt.sum() + NtE.sum()))
                    else:
                        M = arr(op["M"])
                        handed = M.copy()
                        if sd_ % 5 == 3:
                            handed = np.asfortranarray(M)                    # column-major, as it comes out of a transpose or of Fortran code
                            bump(res["probes"], "matrix_handed_over_in_fortran_order")
                        elif sd_ % 5 == 4:
                            big_ = np.zeros((M.shape[0], 2 * M.shape[1]), dtype=M.dtype)
                            big_[:, ::2] = M
                            handed = big_[:, ::2]                           # a strided view into a larger array
                            bump(res["probes"], "matrix_handed_over_as_a_strided_view")
                        prev = getattr(m, "handed", None)
                        if op.get("reuse_handed") and prev is not None and prev.shape == M.shape:
                            handed = prev                   # the very same ndarray object as last time
                            M = np.array(prev)
                            bump(res["probes"], "reinit_from_same_ndarray_other_partition")
                        if ext:
                            ch.init_from_channel_matrix(handed, Nr, Nt, K, nte_arg)
                        else:
                            ch.init_from_channel_matrix(handed, Nr, Nt, K)
                            if twin["ch"] is None and sd_ % 4 == 0:
                                # a second channel (another cell with the same antenna configuration) is initialised from the very
                                # same Nr / Nt array objects; from now on nothing done to `ch` may show in it
                                c2 = MultiUserChannelMatrix()
                                c2.init_from_channel_matrix(np.array(handed, copy=True) * 2.0, Nr, Nt, K)
                                twin["ch"], twin["snap"] = c2, twin_views(c2)
                                bump(res["probes"], "second_channel_shares_the_antenna_count_arrays")
                        m.raw = M
                        m.handed = handed
                    if kind == "randomize":
                        m.handed = None
                    m.Nr, m.Nt, m.NtE = list(op["Nr"]), list(op["Nt"]), list(op["NtE"])
                    if m.W is not None and old_Nr != m.Nr:
                        m.W_valid = False
                    res["state_keys"].append("%s|%s|cache=%s|pl=%s|reads=%s" % (plan["cls"], kind, cache, m.pl is not None, "".join(sorted(set(reads_since)))[:6]))
                    mutations += 1
                    last_mut = kind
                    reads_since = []
                    if m.pl is not None and old_Nr is not None and (old_Nr != m.Nr):
                        bump(res["probes"], "redimension_with_pathloss_set")
                    if cache[1] == "1":
                        bump(res["probes"], "mutation_after_big_H_cached")
                elif kind == "init_bad":
                    if m.raw is None or not m.pl_valid:
                        continue
                    Mb = arr({"shape": [int(sum(m.Nr)), int(sum(m.Nt) + sum(m.NtE))], "np_seed": op["np_seed"]})
                    try:
                        if ext:
                            ch.init_from_channel_matrix(Mb, np.array(m.Nr), np.array(m.Nt), op["K_bad"], np.array(m.NtE, dtype=int))
                        else:
                            ch.init_from_channel_matrix(Mb, np.array(m.Nr), np.array(m.Nt), op["K_bad"])
                        viol("views", step, "init_from_channel_matrix accepted K=%d for %d antenna counts" % (op["K_bad"], len(m.Nr)), view="accepted")
                        break
                    except ValueError:
                        bump(res["faults"], "rejected-setter")
                    if ch.K != K:
                        viol("views", step, "the refused re-initialisation changed K from %d to %r" % (K, ch.K), view="K")
                        break
                    check_views(step, "all")
                elif kind == "set_pathloss":
                    if m.raw is None:
                        continue
                    if op["pl"] is None:
                        if ext:
                            ch.set_pathloss(None)
                        else:
                            ch.set_pathloss(None)
                        m.pl = None
                    else:
                        pl = arr(op["pl"], positive=True)
                        if ext:
                            e = arr(op["ext"], positive=True)
                            ch.set_pathloss(pl.copy(), e.copy())
                            m.pl = np.hstack([pl, e])
                        else:
                            ch.set_pathloss(pl.copy())
                            m.pl = pl
                    m.pl_valid = True
                    res["state_keys"].append("%s|set_pathloss(%s)|cache=%s|reads=%s" % (plan["cls"], "None" if op["pl"] is None else "M", cache, "".join(sorted(set(reads_since)))[:6]))
                    mutations += 1
                    last_mut = "set_pathloss"
                    reads_since = []
                    if cache[1] == "1":
                        bump(res["probes"], "set_pathloss_after_big_H_cached")
                    if cache[0] == "1":
                        bump(res["probes"], "set_pathloss_after_H_cached")
                elif kind == "scribble":
                    if m.raw is None or getattr(m, "handed", None) is None or not m.pl_valid:
                        continue
                    try:
                        m.handed *= op["factor"]          # the library may have frozen the array: then nothing can change
                        wrote = True
                    except ValueError:
                        wrote = False
                    bump(res["probes"], "caller_wrote_into_handed_matrix" if wrote else "handed_matrix_is_read_only")
                    if wrote:
                        # either every view follows the caller's buffer or none does: try both, all views must agree on ONE
                        old_raw = m.raw
                        check_views(step, "all")
                        if res["status"] != "ok":
                            res["status"] = "ok"
                            first = res["violations"].pop()
                            m.raw = np.array(m.handed)
                            check_views(step, "all")
                            if res["status"] != "ok":
                                res["violations"][-1]["detail"] = ("after the caller wrote into the matrix it had passed to init_from_channel_matrix the views are "
                                                                   "incoherent: neither all-old nor all-new (%s | %s)" % (first["detail"][:150], res["violations"][-1]["detail"][:150]))
                                res["violations"][-1]["signature"]["view"] = "aliasing"
                                m.raw = old_raw
                elif kind == "noise_var":
                    if op["v"] is not None and op["v"] < 0:
                        # an inadmissible value: rejected, and the variance in force stays what it was
                        try:
                            ch.noise_var = op["v"]
                            viol("noise", step, "a negative noise variance (%r) was accepted" % op["v"])
                            break
                        except (AssertionError, ValueError):
                            bump(res["faults"], "rejected-setter")
                        if ch.noise_var != m.noise_var:
                            viol("noise", step, "the rejected noise variance %r changed noise_var to %r" % (op["v"], ch.noise_var))
                            break
                    else:
                        ch.noise_var = np.float32(op["v"]) if (op["v"] is not None and step % 3 == 0) else op["v"]
                        m.noise_var = None if op["v"] is None else float(np.float32(op["v"]) if step % 3 == 0 else op["v"])
                elif kind == "post_filter":
                    if m.raw is None:
                        continue
                    if op["seed"] is None:
                        ch.set_post_filter(None)
                        m.W = None
                        m.W_obj = None
                    else:
                        rs = np.random.RandomState(op["seed"])
                        W = [rs.randn(n_, n_) + 1j * rs.randn(n_, n_) for n_ in m.Nr]
                        # the dtype is a function of the seed, so that every place that emits this operation varies it:
                        # real filters, or integer antenna-selection (permutation) matrices
                        if op["seed"] % 5 == 1:
                            W = [w.real.copy() for w in W]
                            bump(res["probes"], "real_valued_post_filter")
                        elif op["seed"] % 5 == 2:
                            W = [np.eye(n_, dtype=int)[rs.permutation(n_)] for n_ in m.Nr]
                            bump(res["probes"], "integer_post_filter")
                        Wa = np.zeros(len(W), dtype=np.ndarray)
                        for i, w in enumerate(W):
                            Wa[i] = w
                        prev = getattr(m, "W_obj", None)
                        if op.get("same_object") and prev is not None and len(prev) == len(W):
                            for i, w in enumerate(W):
                                prev[i] = w                       # edited in place ...
                            ch.set_post_filter(prev)              # ... and handed over again
                            bump(res["probes"], "same_filter_container_passed_again")
                        else:
                            m.W_obj = list(W) if op["seed"] % 3 == 0 else Wa      # a plain list of filters is accepted too
                            ch.set_post_filter(m.W_obj)
                        m.W = W
                    m.W_valid = True
                    res["state_keys"].append("%s|post_filter|cache=%s" % (plan["cls"], cache))
                elif kind == "read":
                    if m.raw is None or not m.pl_valid:
                        continue
                    check_views(step, op["what"])
                    reads_since.append(op["what"][0] + op["what"][-1])
                elif kind == "corrupt":
                    if m.raw is None or not m.W_valid or not m.pl_valid:
                        continue
                    rs = np.random.RandomState(op["seed"])
                    nc = op["ncols"]
                    tx = list(m.Nt) + list(m.NtE)
                    blocks = [rs.randn(n_, nc) + 1j * rs.randn(n_, nc) for n_ in tx]
                    x = np.vstack(blocks)
                    ch.set_noise_seed(op["noise_seed"])
                    E = m.big()
                    if op["concat"]:
                        y = ch.corrupt_concatenated_data(x.copy())
                        ys = None
                    else:
                        data = np.zeros(K, dtype=np.ndarray)
                        for i in range(K):
                            data[i] = blocks[i]
                        if ext:
                            ed = np.zeros(extK, dtype=np.ndarray)
                            for i in range(extK):
                                ed[i] = blocks[K + i]
                            ys = ch.corrupt_data(data, ed)
                        else:
                            ys = ch.corrupt_data(data)
                        y = None
                    n = ch.last_noise
                    if (n is None) != (m.noise_var is None):
                        viol("noise", step, "last_noise is %s although noise_var is %r" % ("None" if n is None else "an array", m.noise_var))
                        break
                    exp = E @ x
                    if n is not None:
                        if np.shape(n) != exp.shape:
                            viol("noise", step, "last_noise has shape %s, received signal %s" % (np.shape(n), exp.shape))
                            break
                        if m.noise_var == 0 and np.any(n != 0):
                            viol("noise", step, "noise_var is 0 but last_noise is not zero")
                            break
                        if m.noise_var and not np.any(n != 0):
                            viol("noise", step, "noise_var is %r but last_noise is identically zero" % m.noise_var)
                            break
                        exp = exp + n
                    if m.W is not None:
                        from scipy.linalg import block_diag
                        exp = block_diag(*m.W).conj().T @ exp
                    scale = 1.0 + float(np.max(np.abs(exp))) if exp.size else 1.0
                    if y is not None:
                        if not near(y, exp, 1e-10 * scale):
                            viol("received", step, "corrupt_concatenated_data is not W^H (current_H x + last_noise): max err %s" % (
                                float(np.max(np.abs(y - exp))) if np.shape(y) == exp.shape else "shape %s vs %s" % (np.shape(y), exp.shape)), op="concat")
                            break
                    else:
                        cr = np.concatenate([[0], np.cumsum(m.Nr)])
                        if len(ys) != K:
                            viol("received", step, "corrupt_data returned %d blocks for %d receivers" % (len(ys), K), op="split")
                            break
                        for k in range(K):
                            if not near(ys[k], exp[cr[k]:cr[k + 1], :], 1e-10 * scale):
                                viol("received", step, "corrupt_data block of receiver %d is not its %d rows of W^H (current_H x + last_noise)" % (k, m.Nr[k]), op="split")
                                break
                        if res["status"] != "ok":
                            break
                    # what earlier transmissions reported (their noise, their received blocks) belongs to the caller:
                    # a later transmission must not rewrite it, or "received = H x + reported noise" stops holding for them
                    for (st0, what, obj, cp) in held_out:
                        if np.shape(obj) != cp.shape or not np.array_equal(np.asarray(obj), cp):
                            viol("received", step, "the %s reported for the transmission of step %d was rewritten by this transmission" % (what, st0), op="held_" + what)
                            break
                    if res["status"] != "ok":
                        break
                    if n is not None:
                        held_out.append((step, "last_noise", n, np.array(n, copy=True)))
                    if y is not None:
                        held_out.append((step, "received_data", y, np.array(y, copy=True)))
                    del held_out[:-4]
                    bump(res["probes"], "corrupt_with_noise" if n is not None else "corrupt_without_noise")
                    if m.W is not None:
                        bump(res["probes"], "corrupt_with_post_filter")
                else:
                    raise HarnessError("unknown op %r" % (op,))
        except HarnessError:
            raise
        except Exception as e:
            viol("op_raises", step, "%s raised %s: %s" % (kind, type(e).__name__, str(e)[:200]), op=kind, exc=type(e).__name__)
            break
        if twin["ch"] is not None and res["status"] == "ok":
            try:
                now_ = twin_views(twin["ch"])
                same_ = twin_same(now_, twin["snap"])
            except Exception as e_:     # noqa: BLE001
                same_ = False
                now_ = "reading it raised %s: %s" % (type(e_).__name__, e_)
            if not same_:
                viol("views", step, "an operation on one channel object (%s) changed ANOTHER channel object that was initialised from the same antenna-count arrays: Nr %s -> %s" % (
                    kind, twin["snap"][2], now_[2] if isinstance(now_, tuple) else now_), view="twin")
        log.add(kind, {k: v for k, v in op.items() if k != "op"})
        # after every MUTATION the two primary views are re-derived (reads populate caches, which is the point)
        if kind in ("randomize", "init", "set_pathloss") and res["status"] == "ok" and m.pl_valid:
            try:
                check_views(step, "all" if (step % 3 == 0) else "none")
            except Exception as e:
                viol("op_raises", step, "reading the views after %s raised %s: %s" % (kind, type(e).__name__, str(e)[:200]), op="read", exc=type(e).__name__)
                break
    res["digest"] = log.digest()
    res["steps"] = log.seq
    res["nontrivial"] = mutations >= 2
    return res


def shrink(plan):
    P = lambda: copy.deepcopy(plan)   # noqa: E731
    for cand in ddmin_candidates(plan["ops"], 1):
        c = P()
        c["ops"] = cand
        yield c
    for i, op in enumerate(plan["ops"]):
        if op["op"] in ("randomize", "init"):
            for fld in ("Nr", "Nt", "NtE"):
                if any(v > 1 for v in op[fld]):
                    c = P()
                    c["ops"][i][fld] = [1] * len(op[fld])
                    if op["op"] == "init":
                        c["ops"][i]["M"]["shape"] = [sum(c["ops"][i]["Nr"]), sum(c["ops"][i]["Nt"]) + sum(c["ops"][i]["NtE"])]
                    yield c
        if op["op"] == "corrupt" and op["ncols"] > 1:
            c = P()
            c["ops"][i]["ncols"] = 1
            yield c
        if op["op"] == "noise_var" and op["v"] not in (None, 0.0):
            c = P()
            c["ops"][i]["v"] = None
            yield c
