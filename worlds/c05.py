"""C05: the runner runs exactly the requested repetitions per variation."""
from worlds.runner_gen import execute, gen_plan_c05 as gen_plan, shrink  # noqa: F401
from worlds.runner_world import warm_up  # noqa: F401
