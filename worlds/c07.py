"""C07: a simulation stopped at any point resumes without losing or
double-counting work."""
from worlds.runner_gen import execute, gen_plan_c07 as gen_plan, shrink  # noqa: F401
from worlds.runner_world import warm_up  # noqa: F401
