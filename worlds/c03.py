"""C03: the output of a tapped-delay-line channel is the convolution with the
impulse response it reports.  History machine: many consecutive transmissions
on ONE channel object whose fading process evolves (Jakes clock / Rayleigh
draws), with direction switches and path-loss changes in between; after every
transmission the response reported for THAT transmission must reproduce THAT
output through an independent dense double-loop convolution / per-block DFT."""
import copy

import numpy as np

from simkit.core import (EventLog, HarnessError, add_violation, bump, ddmin_candidates, new_result, op_time_limit, use_repo)

use_repo()
from pyphysim.channels import fading, fading_generators, multiuser, singleuser   # noqa: E402

RTOL = 1e-9


def warm_up():
    pass


# --------------------------------------------------------------------------
# plans
# --------------------------------------------------------------------------
def gen_sel(rng, fft):
    r = rng.random()
    if r < 0.3:
        return None
    if r < 0.6:
        k = rng.randint(1, fft)
        idx = sorted(rng.sample(range(fft), k))
        if rng.random() < 0.3:
            rng.shuffle(idx)
        if rng.random() < 0.1:
            idx = idx + [idx[0]]                 # a repeated carrier
        if rng.random() < 0.2:
            # carriers around DC written with negative indexes (np.r_[-3:0, 1:4]): ordinary numpy indexing, -k is carrier fft-k
            idx = [i - fft if (i > fft // 2 or rng.random() < 0.2) and i > 0 else i for i in idx]
        return {"idx": idx, "as_list": rng.random() < 0.25}
    start = rng.choice([None, 0, 0, 1, rng.randrange(fft)])
    stop = rng.choice([None, fft, fft, rng.randint(1, fft), fft + 3])
    step = rng.choice([None, 1, 2, 2, 3, 5])
    if rng.random() < 0.15:
        # a reversed selection (mirrored spectrum): slice(None, None, -1), slice(fft-1, None, -2), slice(-1, 2, -1)
        return {"slice": [rng.choice([None, fft - 1, -1]), rng.choice([None, None, rng.randrange(fft)]), rng.choice([-1, -1, -2, -3])]}
    return {"slice": [start, stop, step]}


def sel_count(sel, fft):
    if sel is None:
        return fft
    if "idx" in sel:
        return len(sel["idx"])
    return len(range(*slice(*sel["slice"]).indices(fft)))


def gen_plan(rng, tier, idx, opts):
    kind = rng.choice(["tdl", "tdl", "tdlmimo", "tdlmimo", "su", "sumimo", "sumimo", "mu", "mumimo"])
    gen = rng.choice(["jakes", "jakes", "rayleigh"])
    Ts = 10 ** rng.uniform(-8, -5)
    if rng.random() < 0.08:
        Ts = rng.choice([1.0, 1.5, 2.0, 3.0, 0.5])       # normalised time: delays counted in samples
    if kind in ("su", "sumimo") and rng.random() < 0.12:
        profile = {"default": True}                  # SuChannel() / SuMimoChannel(N): flat Rayleigh channel, Ts = 1
        gen = "default"
        Ts = 1.0
    elif rng.random() < 0.2:
        profile = {"cost259": rng.choice(["TUx", "RAx", "HTx"])}
        if profile["cost259"] == "HTx":
            Ts = max(Ts, 3e-7)
        else:
            Ts = max(Ts, 3e-8)
    else:
        nt = rng.randint(1, 8)
        maxd = rng.choice([0.4, 0.95, 3, 3, 6, 12, 30]) * Ts    # 0.4: every tap collapses onto delay 0; 0.95: the last one may round up to 1
        delays = sorted(rng.uniform(0, maxd) for _ in range(nt))
        if rng.random() < 0.5:
            delays[0] = 0.0
        if nt >= 2 and rng.random() < 0.4:                       # force colliding delays after discretisation
            delays[1] = delays[0] + 0.2 * Ts
            if nt >= 3 and rng.random() < 0.5:
                delays[2] = delays[0] + 0.3 * Ts                 # three taps on one sample
            delays.sort()
        powers = [-rng.uniform(0, 30) for _ in range(nt)]
        if nt >= 2 and rng.random() < 0.25:
            # the taps listed in another order than by increasing delay (e.g. two clusters one after the other): nothing
            # in the documentation asks for sorted input, and the discretised profile must come out the same
            order_ = rng.sample(range(nt), nt)
            delays = [delays[i] for i in order_]
            powers = [powers[i] for i in order_]
        profile = {"delays": delays, "powers_dB": powers}
        if rng.random() < 0.3:
            # the profile is ONE TdlChannelProfile object that was discretised before for another sampling interval (it served
            # another channel object); the channel under test gets the same object
            profile["shared_object_first_Ts"] = Ts * rng.choice([1.5, 0.5, 2.0, 2.0 / 3.0])
    Nr = Nt = 1
    if kind in ("tdlmimo", "sumimo", "mumimo"):
        Nr, Nt = rng.randint(1, 3), rng.randint(1, 3)
    users = [1, 1]
    if kind in ("mu", "mumimo"):
        users = [rng.randint(1, 3), rng.randint(1, 3)]
    plan = {"world": "tdl", "kind": kind, "gen": gen, "Ts": Ts, "Fd": rng.choice([5.0, 50.0, 200.0]), "L": rng.choice([4, 8, 16]),
            "profile": profile, "Nr": Nr, "Nt": Nt, "users": users, "seed": rng.randrange(1 << 31), "ops": []}
    sd = [rng.randrange(1 << 30)]

    def s():
        sd[0] += 1
        return sd[0]
    for _ in range(rng.randint(2, 15)):
        r = rng.random()
        if r < 0.45:
            plan["ops"].append({"op": "time", "n": rng.randint(1, 200) if rng.random() < 0.7 else rng.randint(1, 8), "seed": s()})
            if rng.random() < 0.15:
                plan["ops"][-1]["no_fetch"] = True      # the caller does not ask for the response of this transmission
        elif r < 0.75:
            fft = rng.choice([4, 8, 8, 16, 32, 64])
            sel = gen_sel(rng, fft)
            plan["ops"].append({"op": "freq", "fft": fft, "sel": sel, "blocks": rng.randint(1, 4), "seed": s()})
            if rng.random() < 0.15:
                plan["ops"][-1]["no_fetch"] = True
        elif r < 0.765:
            # ANOTHER channel object built on the very same (discretised) profile object makes a frequency-domain transmission
            # with its own FFT size in between (two links of one scenario)
            plan["ops"].append({"op": "other_channel", "fft": rng.choice([4, 8, 16, 32, 64]), "blocks": rng.randint(1, 3), "seed": s()})
        elif r < 0.775:
            # a frequency-domain transmission that FAILS half-way (a subcarrier index outside the FFT): the caller catches the
            # error and goes on using the channel
            fft = rng.choice([4, 8, 16])
            plan["ops"].append({"op": "freq_bad", "fft": fft, "idx": [0, fft - 1, fft + rng.randint(0, 3)], "blocks": rng.randint(1, 3), "seed": s()})
        elif r < 0.87:
            if rng.random() < 0.2:      # a REJECTED setter (non-bool): the fault-like event of this world
                plan["ops"].append({"op": "switch_bad", "v": rng.choice(["int1", "int0", "none", "np_true", "str"])})
            else:
                plan["ops"].append({"op": "switch", "v": rng.random() < 0.6})
        elif kind in ("su", "sumimo") and rng.random() < 0.25:
            plan["ops"].append({"op": "set_antennas", "Nr": rng.randint(1, 3), "Nt": rng.randint(1, 3)})   # re-dimension between transmissions
        elif kind in ("su", "sumimo", "mu", "mumimo"):
            r2 = rng.random()
            if r2 < 0.2:                # a REJECTED path loss (outside [0, 1]); the caller keeps using the channel
                plan["ops"].append({"op": "pathloss_bad", "v": rng.choice([1.5, 4.0, -0.25, 1.0000001, -1e-9]), "seed": s()})
            elif r2 < 0.4:
                plan["ops"].append({"op": "pathloss", "seed": None})
            else:
                plan["ops"].append({"op": "pathloss", "seed": s()})
        else:
            plan["ops"].append({"op": "time", "n": rng.randint(1, 40), "seed": s()})
    return plan


# --------------------------------------------------------------------------
# building the real objects
# --------------------------------------------------------------------------
def build(plan):
    np.random.seed(plan["seed"] % (1 << 31))
    Ts = plan["Ts"]
    kind = plan["kind"]
    if plan["gen"] == "jakes":
        g = fading_generators.JakesSampleGenerator(plan["Fd"], Ts, plan["L"], shape=None, RS=np.random.RandomState(plan["seed"] % (1 << 31)))
    else:
        g = fading_generators.RayleighSampleGenerator()
    pr = plan["profile"]
    if pr.get("default"):
        Nr, Nt = plan["Nr"], plan["Nt"]
        if kind == "su":
            ch = singleuser.SuChannel()
        elif Nr == Nt:
            ch = singleuser.SuMimoChannel(Nr)
        else:
            ch = singleuser.SuChannel()
            ch.set_num_antennas(Nr, Nt)
        return ch, (np.zeros(1), np.ones(1))
    if "cost259" in pr:
        prof = getattr(fading, "COST259_" + pr["cost259"])
        kw = {"channel_profile": prof, "Ts": Ts}
        raw = (np.array(prof.tap_delays), np.array(prof.tap_powers_linear))
    elif pr.get("shared_object_first_Ts"):
        pobj = fading.TdlChannelProfile(np.array(pr["powers_dB"]), np.array(pr["delays"]), "shared")
        pobj.get_discretize_profile(pr["shared_object_first_Ts"])        # first use of the object, other sampling interval
        kw = {"channel_profile": pobj, "Ts": Ts}
        raw = (np.array(pr["delays"]), 10 ** (np.array(pr["powers_dB"]) / 10.0))
    else:
        kw = {"tap_powers_dB": np.array(pr["powers_dB"]), "tap_delays": np.array(pr["delays"]), "Ts": Ts}
        raw = (np.array(pr["delays"]), 10 ** (np.array(pr["powers_dB"]) / 10.0))
    Nr, Nt = plan["Nr"], plan["Nt"]
    if kind == "tdl":
        ch = fading.TdlChannel(g, **kw)
    elif kind == "tdlmimo":
        g.shape = (Nr, Nt)
        ch = fading.TdlMimoChannel(g, **kw)
    elif kind == "su":
        ch = singleuser.SuChannel(g, **kw)
    elif kind == "sumimo":
        if Nr == Nt:
            ch = singleuser.SuMimoChannel(Nr, g, **kw)
        else:
            ch = singleuser.SuChannel(g, **kw)
            ch.set_num_antennas(Nr, Nt)
    elif kind == "mu":
        ch = multiuser.MuChannel(tuple(plan["users"]), g, **kw)
    elif kind == "mumimo":
        ch = multiuser.MuMimoChannel(tuple(plan["users"]), Nr, Nt, g, **kw)
    else:
        raise HarnessError("unknown kind")
    return ch, raw


# --------------------------------------------------------------------------
# reference models (dense, independent of the sparse accumulate-and-shift code)
# --------------------------------------------------------------------------
def conv_time(H, x, mimo, switched):
    """H: dense taps (D, [Nr, Nt,] n); x: (n,) or (Nin, n).  y[:, m] = sum_d H_d[..., m-d] x[:, m-d]."""
    D = H.shape[0]
    n = H.shape[-1]
    if not mimo:
        y = np.zeros(n + D - 1, dtype=complex)
        for d in range(D):
            for j in range(n):
                y[d + j] += H[d, j] * x[j]
        return y
    Nr, Nt = H.shape[1], H.shape[2]
    nout = Nt if switched else Nr
    y = np.zeros((nout, n + D - 1), dtype=complex)
    for d in range(D):
        Hd = H[d]                                   # (Nr, Nt, n)
        if switched:
            y[:, d:d + n] += np.einsum("rtj,rj->tj", Hd, x)
        else:
            y[:, d:d + n] += np.einsum("rtj,tj->rj", Hd, x)
    return y


def apply_freq(H, x, fft, selidx, mimo, switched):
    """H dense (D, [Nr, Nt,] nblocks); block-static multiplication by the DFT of the reported taps."""
    nb = H.shape[-1]
    bs = len(selidx)
    if not mimo:
        y = np.zeros(nb * bs, dtype=complex)
        for b in range(nb):
            F = np.fft.fft(H[:, b], fft)[selidx]
            y[b * bs:(b + 1) * bs] = F * x[b * bs:(b + 1) * bs]
        return y
    Nr, Nt = H.shape[1], H.shape[2]
    nout = Nt if switched else Nr
    y = np.zeros((nout, nb * bs), dtype=complex)
    for b in range(nb):
        F = np.fft.fft(H[..., b], fft, axis=0)[selidx]          # (bs, Nr, Nt)
        xb = x[:, b * bs:(b + 1) * bs]
        if switched:
            y[:, b * bs:(b + 1) * bs] = np.einsum("srt,rs->ts", F, xb)
        else:
            y[:, b * bs:(b + 1) * bs] = np.einsum("srt,ts->rs", F, xb)
    return y


def rel_err(a, b):
    a = np.asarray(a)
    b = np.asarray(b)
    if a.shape != b.shape:
        return float("inf")
    if a.size == 0:
        return 0.0
    return float(np.max(np.abs(a - b)) / (1e-300 + max(1.0, float(np.max(np.abs(b))))))


def execute(plan):
    res = new_result()
    log = EventLog()
    pid = plan.get("property", "C03")
    kind = plan["kind"]
    mimo = kind in ("tdlmimo", "sumimo", "mumimo")
    multi = kind in ("mu", "mumimo")
    Nr, Nt = plan["Nr"], plan["Nt"]
    U_rx, U_tx = plan["users"]
    switched = False
    tx_count = 0
    held = []
    other_ch = [None]
    last_kind = None

    def viol(inv, step, detail, **sig):
        sg = {"multiuser": multi}
        sg.update(sig)
        add_violation(res, pid + "." + inv, step, detail, sg)
    try:
        with op_time_limit(30.0):
            ch, raw = build(plan)
    except HarnessError:
        raise
    except Exception as e:
        viol("raises", -1, "building the channel raised %s: %s" % (type(e).__name__, str(e)[:200]), op="build", exc=type(e).__name__)
        res["digest"] = log.digest()
        return res
    # ---- discretised profile --------------------------------------------------
    prof = ch.channel_profile
    didx = np.round(raw[0] / plan["Ts"]).astype(int)
    uniq = np.unique(didx)
    pw = np.array([raw[1][didx == u].sum() for u in uniq])
    pw = pw / pw.sum()
    td = np.asarray(prof.tap_delays)
    if len(uniq) < len(didx):
        bump(res["probes"], "colliding_taps_merged")
    if td.shape != uniq.shape or np.any(td != uniq) or not np.issubdtype(td.dtype, np.integer):
        viol("discretize", -1, "discretized delays %s (dtype %s), expected unique sorted integers %s" % (td.tolist(), td.dtype, uniq.tolist()), op="profile")
    elif abs(float(np.sum(prof.tap_powers_linear)) - 1.0) > 1e-9 or rel_err(prof.tap_powers_linear, pw) > 1e-9:
        viol("discretize", -1, "discretized powers %s (sum %.12g), merged powers should be %s" % (
            np.round(prof.tap_powers_linear, 6).tolist(), float(np.sum(prof.tap_powers_linear)), np.round(pw, 6).tolist()), op="profile")
    D = int(uniq[-1]) + 1
    pl = None
    for step, op in enumerate(plan["ops"]):
        if res["status"] != "ok":
            break
        o = op["op"]
        try:
            with op_time_limit(30.0):
                if o == "switch":
                    ch.switched_direction = bool(op["v"])
                    switched = bool(op["v"])
                    log.add("switch", switched)
                    continue
                if o == "set_antennas":
                    if kind not in ("su", "sumimo"):
                        continue
                    ch.set_num_antennas(op["Nr"], op["Nt"])
                    Nr, Nt = op["Nr"], op["Nt"]
                    mimo = True
                    log.add("set_antennas", Nr, Nt)
                    bump(res["probes"], "antennas_changed_between_transmissions")
                    continue
                if o == "switch_bad":
                    bad = {"int1": 1, "int0": 0, "none": None, "np_true": np.True_, "str": "yes"}[op["v"]]
                    try:
                        ch.switched_direction = bad
                        bump(res["probes"], "non_bool_direction_accepted")
                    except TypeError:
                        bump(res["faults"], "rejected-setter")
                    # whatever happened, the PUBLIC state is what later transmissions must follow
                    pub = ch.switched_direction
                    if not isinstance(pub, (bool, np.bool_)):
                        viol("direction_state", step, "switched_direction reads %r after assigning %r" % (pub, bad), op=o)
                        break
                    switched = bool(pub)
                    log.add("switch_bad", op["v"], switched)
                    continue
                if o == "other_channel":
                    if other_ch[0] is None:
                        try:
                            other_ch[0] = fading.TdlChannel(fading_generators.RayleighSampleGenerator(), channel_profile=ch.channel_profile)
                        except Exception:       # noqa: BLE001  (e.g. a wrapper that does not expose its profile): nothing to share
                            other_ch[0] = False
                    if other_ch[0]:
                        rs_ = np.random.RandomState(op["seed"])
                        nb_ = op["fft"] * op["blocks"]
                        np.random.seed(op["seed"] % (1 << 31))
                        other_ch[0].corrupt_data_in_freq_domain(rs_.randn(nb_) + 1j * rs_.randn(nb_), op["fft"])
                        bump(res["probes"], "another_channel_on_the_same_profile_object_transmitted")
                    log.add("other_channel", op["fft"])
                    continue
                if o == "freq_bad":
                    rs_ = np.random.RandomState(op["seed"])
                    nb_ = len(op["idx"]) * op["blocks"]
                    if multi:
                        n_in_ = U_rx if switched else U_tx
                        sig_ = np.array([(rs_.randn(Nr if switched else Nt, nb_) if mimo else rs_.randn(nb_)) + 0j for _ in range(n_in_)])
                    else:
                        sig_ = (rs_.randn(Nr if switched else Nt, nb_) if mimo else rs_.randn(nb_)) + 0j
                    try:
                        ch.corrupt_data_in_freq_domain(sig_, op["fft"], np.array(op["idx"]))
                        bump(res["probes"], "out_of_range_subcarrier_accepted")
                    except Exception:       # noqa: BLE001  (which error is the library's business)
                        bump(res["faults"], "failed-transmission")
                    log.add("freq_bad", op["fft"], op["idx"])
                    last_kind = "freq"
                    continue
                if o == "pathloss_bad":
                    # the statement only needs output == convolution with the REPORTED response afterwards; what the
                    # path loss "is" after a rejected call is the library's business
                    try:
                        if multi:
                            rs = np.random.RandomState(op["seed"])
                            m_bad = rs.uniform(1e-6, 1.0, size=(U_rx, U_tx))
                            m_bad[rs.randint(U_rx), rs.randint(U_tx)] = op["v"]
                            ch.set_pathloss(m_bad)
                        else:
                            ch.set_pathloss(op["v"])
                        bump(res["probes"], "out_of_range_pathloss_accepted")
                    except ValueError:
                        bump(res["faults"], "rejected-setter")
                        bump(res["probes"], "pathloss_rejected_then_channel_reused")
                    pl = "after-rejected"
                    log.add("pathloss_bad", op["v"])
                    continue
                if o == "pathloss":
                    if op["seed"] is None:
                        if multi:
                            continue            # MuChannel offers no way to remove the path loss
                        ch.set_pathloss(None)
                        pl = None
                    else:
                        rs = np.random.RandomState(op["seed"])
                        if multi:
                            pl = rs.uniform(1e-6, 1.0, size=(U_rx, U_tx))
                            ch.set_pathloss(pl.copy())
                        else:
                            pl = float(rs.uniform(1e-6, 1.0))
                            if op["seed"] % 7 == 0:
                                pl = 1.0 if op["seed"] % 2 else 0.0          # the ends of the admissible interval
                            ch.set_pathloss(pl)
                    log.add("pathloss", pl)
                    continue
                # ---- a transmission ------------------------------------------------
                rs = np.random.RandomState(op["seed"])
                if multi:
                    n_in, n_out = (U_rx, U_tx) if switched else (U_tx, U_rx)      # users sending / receiving
                else:
                    n_in = n_out = 1
                ant_in = (Nr if switched else Nt) if mimo else None
                if o == "time":
                    n = op["n"]
                    selidx = None
                else:
                    fft = op["fft"]
                    sel = op["sel"]
                    if sel is None:
                        selidx = list(range(fft))
                        pysel = None
                    elif "idx" in sel:
                        selidx = [i % fft for i in sel["idx"]]
                        pysel = list(sel["idx"]) if sel.get("as_list") else np.array(sel["idx"])
                    else:
                        pysel = slice(*sel["slice"])
                        selidx = list(range(*pysel.indices(fft)))
                    if len(selidx) == 0:
                        continue
                    n = len(selidx) * op["blocks"]
                    if sel is not None and "slice" in sel and (pysel.indices(fft)[1] - pysel.indices(fft)[0]) % pysel.indices(fft)[2] != 0:
                        bump(res["probes"], "slice_step_does_not_divide_span")

                def sig_shape():
                    if mimo:
                        return rs.randn(ant_in, n) + 1j * rs.randn(ant_in, n)
                    return rs.randn(n) + 1j * rs.randn(n)
                xs = [sig_shape() for _ in range(n_in)]
                sig = np.array(xs) if multi else xs[0]          # multiuser: (users, [antennas,] samples)
                if mimo and not multi and ant_in == 1 and op["seed"] % 2 == 0:
                    sig = sig[0]                                  # a single transmit antenna also accepts a 1-D signal
                    bump(res["probes"], "one_dimensional_signal_into_single_antenna_mimo")
                if o == "time":
                    y = ch.corrupt_data(sig.copy())
                else:
                    y = ch.corrupt_data_in_freq_domain(sig.copy(), fft, pysel)
                tx_count += 1
                if op.get("no_fetch"):
                    # nothing is read back: only the NEXT transmission's report is checked (a report assembled lazily must
                    # not carry anything over from this one)
                    exp_len0 = n + D - 1 if o == "time" else n
                    got0 = np.asarray(y[0]) if multi else np.asarray(y)
                    if got0.shape[-1] != exp_len0:
                        viol("length", step, "output has %d samples, expected %d" % (got0.shape[-1], exp_len0), op=o)
                        break
                    bump(res["probes"], "transmission_without_fetching_the_response")
                    last_kind = o
                    log.add(o, n, switched, "no_fetch")
                    continue
                # ---- the response reported for THIS transmission ---------------------
                exp_len = n + D - 1 if o == "time" else n
                nsamp = n if o == "time" else op["blocks"]
                for ro in range(n_out):
                    acc = None
                    for ti in range(n_in):
                        if multi:
                            rx_i, tx_i = (ti, ro) if switched else (ro, ti)      # indices in the un-switched link matrix
                            ir = ch.get_last_impulse_response(rx_i, tx_i)
                        else:
                            ir = ch.get_last_impulse_response()
                        H = np.asarray(ir.tap_values)
                        want_shape = (D,) + ((Nr, Nt) if mimo else ()) + (nsamp,)
                        if H.shape != want_shape:
                            viol("response_shape", step, "reported response has shape %s, expected %s (one sample per %s)" % (
                                H.shape, want_shape, "input sample" if o == "time" else "block"), op=o)
                            break
                        # the accessors of the reported response must describe the same taps
                        sp, spi = np.asarray(ir.tap_values_sparse), np.asarray(ir.tap_indexes_sparse)
                        dense2 = np.zeros(H.shape, dtype=complex)
                        if sp.shape[0] == spi.shape[0] and sp.shape[1:] == H.shape[1:] and (spi.max() if spi.size else 0) < H.shape[0]:
                            dense2[spi] = sp
                        nf = 4 if o == "time" else fft
                        if rel_err(dense2, H) > 1e-12 or rel_err(ir.get_freq_response(max(nf, D)), np.fft.fft(H, max(nf, D), axis=0)) > 1e-9 \
                                or rel_err(np.asarray(ir.tap_values), H) > 0:
                            viol("response_accessors", step, "the reported response is inconsistent: dense taps, sparse taps and frequency response describe different channels", op=o)
                            break
                        part = conv_time(H, xs[ti], mimo, switched) if o == "time" else apply_freq(H, xs[ti], fft, selidx, mimo, switched)
                        acc = part if acc is None else acc + part
                    if res["status"] != "ok":
                        break
                    got = np.asarray(y[ro]) if multi else np.asarray(y)
                    if got.shape[-1] != exp_len:
                        viol("length", step, "output has %d samples, expected %d (input %d, channel memory %d)" % (got.shape[-1], exp_len, n, D - 1), op=o)
                        break
                    e = rel_err(got, acc)
                    if e > RTOL:
                        viol("convolution", step, "%s transmission #%d (%s, n=%d%s): output differs from the %s with the response reported for it: rel err %.3g" % (
                            kind, tx_count, "switched" if switched else "direct", n, "" if o == "time" else ", fft %d sel %s" % (fft, op["sel"]),
                            "convolution" if o == "time" else "per-block DFT product", e), op=o, pathloss=pl is not None)
                        break
                # what earlier transmissions returned belongs to the caller: the received signals and the responses reported
                # for them must not be rewritten by this transmission ("the response reported FOR THAT transmission")
                for (st0, what, obj_, cp) in held:
                    cur_ = np.asarray(obj_.tap_values) if what == "response" else np.asarray(obj_)
                    if cur_.shape != cp.shape or not np.array_equal(cur_, cp):
                        viol("convolution", step, "the %s of the transmission of step %d was rewritten by a later transmission" % (what, st0), op=o, held=what)
                        break
                if res["status"] != "ok":
                    break
                held.append((step, "received signal", y if not multi else y[0], np.array(y if not multi else y[0], copy=True)))
                ir_ = ch.get_last_impulse_response(0, 0) if multi else ch.get_last_impulse_response()
                held.append((step, "response", ir_, np.array(ir_.tap_values, copy=True)))
                del held[:-6]
                log.add(o, n, switched, np.round(np.asarray(y[0] if multi else y).ravel()[:3], 6))
                res["state_keys"].append("%s|%s|%s|sw=%s|pl=%s|prev=%s|sel=%s" % (kind, plan["gen"], o, switched, pl is not None, last_kind,
                                                                                 "-" if o == "time" else ("none" if op["sel"] is None else list(op["sel"])[0])))
                last_kind = o
        except HarnessError:
            raise
        except Exception as e:
            extra = {}
            if o == "freq" and op.get("sel") and "slice" in op["sel"]:
                sl = slice(*op["sel"]["slice"]).indices(op["fft"])
                extra["slice_remainder"] = bool((sl[1] - sl[0]) % sl[2] != 0)
            viol("raises", step, "%s (%s) raised %s: %s" % (o, {k: v for k, v in op.items() if k not in ("op", "seed")}, type(e).__name__, str(e)[:200]),
                 op=o, exc=type(e).__name__, **extra)
            break
    res["digest"] = log.digest()
    res["steps"] = log.seq
    res["nontrivial"] = tx_count >= 2
    return res


def shrink(plan):
    P = lambda: copy.deepcopy(plan)   # noqa: E731
    for cand in ddmin_candidates(plan["ops"], 1):
        c = P()
        c["ops"] = cand
        yield c
    order = ["mumimo", "mu", "sumimo", "su", "tdlmimo", "tdl"]
    simpler = {"mumimo": ["mu", "tdlmimo"], "mu": ["su"], "sumimo": ["tdlmimo", "su"], "su": ["tdl"], "tdlmimo": ["tdl"], "tdl": []}
    for k2 in simpler[plan["kind"]]:
        c = P()
        c["kind"] = k2
        if k2 in ("tdl", "su", "mu"):
            c["Nr"] = c["Nt"] = 1
        if k2 not in ("mu", "mumimo"):
            c["users"] = [1, 1]
        if k2 in ("tdl", "tdlmimo"):
            c["ops"] = [o for o in c["ops"] if o["op"] not in ("pathloss", "pathloss_bad")] or c["ops"]
        yield c
    if plan["gen"] != "rayleigh":
        c = P()
        c["gen"] = "rayleigh"
        yield c
    if "cost259" in plan["profile"]:
        c = P()
        c["profile"] = {"delays": [0.0], "powers_dB": [0.0]}
        yield c
    elif "delays" in plan["profile"]:
        pr = plan["profile"]
        if len(pr["delays"]) > 1:
            for i in range(len(pr["delays"])):
                c = P()
                del c["profile"]["delays"][i]
                del c["profile"]["powers_dB"][i]
                yield c
    for f in ("Nr", "Nt"):
        if plan[f] > 1:
            c = P()
            c[f] = 1
            yield c
    for i in (0, 1):
        if plan["users"][i] > 1:
            c = P()
            c["users"][i] = 1
            yield c
    for i, op in enumerate(plan["ops"]):
        if op["op"] == "time" and op["n"] > 1:
            c = P()
            c["ops"][i]["n"] = max(1, op["n"] // 2)
            yield c
        if op["op"] == "freq":
            if op["blocks"] > 1:
                c = P()
                c["ops"][i]["blocks"] = 1
                yield c
            if op["fft"] > 4 and op["sel"] is None:
                c = P()
                c["ops"][i]["fft"] = 4
                yield c
