"""World for C05 / C07: the real SimulationRunner driven by a scripted user
program on a virtual clock and a simulated disk, compared call for call with a
small reference runner, with crash / kill / I/O-error injection and restart on
whatever the disk kept."""
import functools
import io
import itertools
import json
import os
import pickle
import sys

import numpy as np

from simkit.core import (EventLog, HarnessError, PlanTimeout, add_violation, bump, new_result, use_repo)
from simkit.seams import OsShim, Seams, SimCrash, SimDisk, SimInterrupt, VirtualClock

use_repo()
from pyphysim.simulations import parameters as P_mod   # noqa: E402
from pyphysim.simulations import results as R_mod      # noqa: E402
from pyphysim.simulations import runner as RUN_mod     # noqa: E402
from pyphysim.simulations.parameters import SimulationParameters   # noqa: E402
from pyphysim.simulations.results import Result, SimulationResults  # noqa: E402
from pyphysim.simulations.runner import SimulationRunner, SkipThisOne, get_partial_results_filename  # noqa: E402

SIM_DIR = os.path.dirname(os.path.abspath(RUN_mod.__file__)) + os.sep
_SCRATCH = None


def scratch_cwd():
    """Empty real directory used as cwd: if the code under test ever does real
    file I/O with a relative name it lands here and is reported loudly."""
    global _SCRATCH
    if _SCRATCH is None or not os.path.isdir(_SCRATCH):
        import tempfile
        base = "/dev/shm" if os.path.isdir("/dev/shm") else None
        _SCRATCH = tempfile.mkdtemp(prefix="verif-cwd-%d-" % os.getpid(), dir=base)
        import atexit
        import shutil
        pid = os.getpid()
        atexit.register(lambda: os.getpid() == pid and shutil.rmtree(_SCRATCH, ignore_errors=True))
        from simkit import core as _core
        _core.WORKER_EXIT_HOOKS.append(lambda: os.getpid() == pid and shutil.rmtree(_SCRATCH, ignore_errors=True))
    return _SCRATCH


def warm_up():
    pass


# --------------------------------------------------------------------------
# helpers
# --------------------------------------------------------------------------
def plan_val(x):
    """Plan (JSON) value -> Python value handed to the library."""
    if isinstance(x, dict) and "__nd__" in x:
        return np.array(x["__nd__"])
    return x


def canon_val(x):
    if isinstance(x, dict) and "__nd__" in x:
        return [canon_val(i) for i in x["__nd__"]]
    if isinstance(x, np.generic):
        return x.item()
    if isinstance(x, np.ndarray):
        return [canon_val(i) for i in x.tolist()]
    if isinstance(x, (list, tuple)):
        return [canon_val(i) for i in x]
    return x


def canon_params(d):
    return {k: canon_val(v) for k, v in d.items() if k != "rep_max"}


def variations_of(cfg):
    names = sorted(cfg["unpacked"])
    lists = [cfg["unpacked"][n]["values"] for n in names]
    out = []
    for comb in itertools.product(*lists):
        d = dict(cfg["fixed"])
        d.update(dict(zip(names, comb)))
        out.append(d)
    return out if names else [dict(cfg["fixed"])]


def regrid_cfg(cfg, rg):
    """The configuration after a parameter was un-marked (it stays in the set as a fixed, list-valued parameter) or a
    list-valued fixed parameter was marked for unpacking, on a LIVE runner between two simulate() calls."""
    c = json.loads(json.dumps(cfg))
    if rg.get("reverse_in_hook") in c["unpacked"]:
        c["unpacked"][rg["reverse_in_hook"]]["values"] = list(reversed(c["unpacked"][rg["reverse_in_hook"]]["values"]))
    elif rg.get("unmark") in c["unpacked"]:
        spec = c["unpacked"].pop(rg["unmark"])
        c["fixed"][rg["unmark"]] = {"__nd__": list(spec["values"])} if spec.get("array") else list(spec["values"])
    elif rg.get("mark") in c["fixed"]:
        v = c["fixed"].pop(rg["mark"])
        if isinstance(v, dict) and "__nd__" in v:
            c["unpacked"][rg["mark"]] = {"values": list(v["__nd__"]), "array": True}
        elif isinstance(v, list):
            c["unpacked"][rg["mark"]] = {"values": list(v), "array": False}
        else:
            c["fixed"][rg["mark"]] = v
    return c


def val_of(v, c):
    return 1 + (3 * v + 5 * c) % 7


def tot_of(v, c):
    return (1, 2, 4, 8)[(v + c) % 4]


def stop_eval(rule, cnt, errv, errt, rep, skipped=0, elapsed=0.0):
    k = rule.get("kind", "always")
    if k == "skips_lt":
        return skipped < rule["S"]
    if k == "time_lt":
        return elapsed < rule["T"]
    if k == "always":
        return True
    if k == "rep_lt":
        return rep < rule["r0"]
    if k == "cnt_lt":
        return cnt < rule["E"]
    if k == "ratio_gt":
        return (errv / errt) > rule["q"]
    raise HarnessError("unknown stop rule %r" % (rule,))


class StepCap(BaseException):
    pass


# --------------------------------------------------------------------------
# the scripted user program
# --------------------------------------------------------------------------
class ScriptedRunner(SimulationRunner):
    def __init__(self, world, cfg, pname):
        self.w = world
        self.pname = pname
        super().__init__(read_command_line_args=False)
        self.rep_max = cfg["rep_max"]
        # parameters are added (and marked for unpacking) in the order the plan says: the documented
        # variation order is by SORTED name, whatever the insertion order was
        order = cfg.get("order") or (sorted(cfg["fixed"]) + sorted(cfg["unpacked"]))
        for name in order:
            if name in cfg["unpacked"]:
                spec = cfg["unpacked"][name]
                vals = list(spec["values"])
                self.params.add(name, np.array(vals) if spec.get("array") else vals)
            elif name in cfg["fixed"]:
                self.params.add(name, plan_val(cfg["fixed"][name]))
        for name in (cfg.get("unpack_order") or sorted(cfg["unpacked"])):
            if name in cfg["unpacked"]:
                self.params.set_unpack_parameter(name)
        for name in cfg["fixed"]:
            if name not in order:
                self.params.add(name, plan_val(cfg["fixed"][name]))
        for name in cfg["unpacked"]:
            if name not in order:
                spec = cfg["unpacked"][name]
                self.params.add(name, np.array(spec["values"]) if spec.get("array") else list(spec["values"]))
            if name not in (cfg.get("unpack_order") or sorted(cfg["unpacked"])):
                self.params.set_unpack_parameter(name)
        if cfg.get("unmark") in cfg["fixed"]:
            # a list-valued parameter is marked for unpacking and un-marked again before the run: it stays fixed
            self.params.set_unpack_parameter(cfg["unmark"])
            self.params.set_unpack_parameter(cfg["unmark"], False)
        self.update_progress_function_style = cfg.get("progress")       # None / 'text1' / 'text2' (printed to a redirected stdout)
        if cfg.get("results_name") is not None:
            self.set_results_filename(cfg["results_name"] + cfg.get("ext", ""))
        self.delete_partial_results_bool = bool(cfg.get("delete_partials", False))
        self.partial_results_folder = cfg.get("partial_folder", "partial_results")

    def _run_simulation(self, current_parameters):
        w = self.w
        w.seams.seam("cb:run:enter")
        v = current_parameters.unpack_index
        if v < 0:
            v = 0
        key = (self.pname, v)
        c = w.calls.get(key, 0)
        w.calls[key] = c + 1
        w.inc_calls += 1
        if w.inc_calls > w.step_cap:
            raise StepCap()
        kind, val, tot, dur = w.outcome(self.pname, v, c)
        if w.mutating:
            # a user program that modifies a list-valued parameter in place: every variation must start from the pristine
            # value; what it finds may only contain ITS OWN earlier marks (never another variation's)
            lst = current_parameters.parameters.get(w.mutating)
            if isinstance(lst, list):
                base = w.cfgs[self.pname]["fixed"][w.mutating]
                seen = list(lst)
                bad = seen[:len(base)] != list(base) or any((not isinstance(x, int)) or x < 100000 or (x - 100000) // 1000 != v for x in seen[len(base):])
                if bad and w.param_leak is None:
                    w.param_leak = "variation %d received %s=%r (pristine value %r; marks 100000+1000*v+j are left by variation v)" % (v, w.mutating, seen, base)
                lst.append(100000 + 1000 * v + (w.inc_calls % 1000))
                bump(w.probes, "user_iteration_mutated_a_parameter_value")
        w.clock.now += dur
        w.sim_time += dur
        w.var_elapsed[v] = w.var_elapsed.get(v, 0.0) + dur
        w.cur_v = v
        obs = canon_params(current_parameters.parameters)
        if w.mutating:
            obs.pop(w.mutating, None)
        if kind == "skip":
            w.trace.append((v, c, "skip", obs))
            w.log.add("run", self.pname, v, c, "skip")
            bump(w.faults, "skip")
            if w.succ_in_v.get(v, 0) == 0 and w.loaded_in_v.get(v) is None:
                bump(w.probes, "skip_before_first_success")
            w.seams.seam("cb:run:skip")
            raise SkipThisOne("scripted skip")
        w.serial += 1
        serial = w.serial
        w.exec_ok[serial] = (self.pname, v, c, val, tot, w.inc_index)
        w.trace.append((v, c, "ok", obs))
        w.log.add("run", self.pname, v, c, "ok", serial)
        w.succ_in_v[v] = w.succ_in_v.get(v, 0) + 1
        res = SimulationResults()
        res.add_result(Result.create("ids", Result.SUMTYPE, serial, accumulate_values=True))
        res.add_new_result("cnt", Result.SUMTYPE, val)
        res.add_new_result("err", Result.RATIOTYPE, val, tot)
        res.add_new_result("last", Result.MISCTYPE, "m%d" % serial)
        res.add_result(Result.create("ch", Result.CHOICETYPE, serial % 3, 3))
        hm = w.script.get("hist")
        if hm:
            # an ARRAY-valued sum result; "reused": the user program fills one preallocated buffer in every repetition
            if hm == "reused":
                buf = getattr(self, "_hist_buf", None)
                if buf is None:
                    buf = self._hist_buf = np.zeros(4, dtype=np.int64)
                buf[:] = hist_vec(serial)
                bump(w.probes, "array_result_from_a_reused_buffer")
            else:
                buf = np.array(hist_vec(serial), dtype=np.int64)
            res.add_new_result("hist", Result.SUMTYPE, buf)
        w.seams.seam("cb:run:exit")
        return res

    def _keep_going(self, current_params, current_sim_results, current_rep):
        val = self._keep_going_rule(current_params, current_sim_results, current_rep)
        form = self.w.script.get("kg_form")
        # a predicate computed with numpy returns numpy.bool_ (e.g. `errors.get_result() < max_errors`), some return 0/1
        return np.bool_(val) if form == "np" else (int(val) if form == "int" else val)

    def _keep_going_rule(self, current_params, current_sim_results, current_rep):
        w = self.w
        w.seams.seam("cb:keep_going")
        rule = w.script.get("stop", {"kind": "always"})
        if rule.get("kind", "always") == "always":
            return True
        cnt = current_sim_results["cnt"][-1].get_result()
        e = current_sim_results["err"][-1]
        skipped = 0
        if rule.get("kind") == "skips_lt":
            skipped = current_sim_results["num_skipped_reps"][-1].get_result()
        v = max(0, current_params.unpack_index)
        elapsed = w.var_elapsed.get(v, 0.0)        # the user program's own budget: time spent inside its iterations
        return stop_eval(rule, cnt, e._value, e._total, current_rep, skipped, elapsed)

    def _on_simulate_start(self):
        he = getattr(self, "hook_edit", None)
        if he is not None:
            self.hook_edit = None
            self.params.add(he[0], he[1])
        self.w.seams.seam("cb:sim_start")

    def _on_simulate_finish(self):
        self.w.seams.seam("cb:sim_finish")

    def _on_simulate_current_params_start(self, current_params):
        self.w.cur_v = max(0, current_params.unpack_index)
        self.w.var_elapsed[max(0, current_params.unpack_index)] = 0.0
        self.w.hook_log.append(("start", max(0, current_params.unpack_index), self.w.drop_mut(canon_params(current_params.parameters)), None))
        self.w.seams.seam("cb:params_start")

    def _on_simulate_current_params_finish(self, current_params, res):
        try:
            ids = [int(i) for i in res["ids"][-1]._value_list]
        except Exception as e:       # noqa: BLE001
            ids = "unreadable: %s" % type(e).__name__
        self.w.hook_log.append(("finish", max(0, current_params.unpack_index), self.w.drop_mut(canon_params(current_params.parameters)), ids))
        # the user program keeps the result set it was handed for this combination (e.g. to plot it later)
        if isinstance(ids, list):
            self.w.kept_sets.append((max(0, current_params.unpack_index), res, list(ids)))
        self.w.seams.seam("cb:params_finish")


def hist_vec(serial):
    return [serial, serial % 5, 1, (serial * serial) % 7]


def hist_sum(ids):
    return [sum(hist_vec(i)[j] for i in ids) for j in range(4)]


class ScriptedRunnerChild(ScriptedRunner):
    """A thin subclass: everything the user wrote is inherited."""


# --------------------------------------------------------------------------
# the world
# --------------------------------------------------------------------------
class World:
    def __init__(self, plan, record_last=False, record_lines=False):
        self.plan = plan
        self.pid = plan.get("property", "C07")
        self.cfgs = {"P1": plan["config"]}
        if plan.get("config2") is not None:
            self.cfgs["P2"] = plan["config2"]
        self.script = plan.get("script", {})
        self.skipset = {tuple(s) for s in self.script.get("skips", [])}
        self.durs = {(d[0], d[1], d[2]): float(d[3]) for d in self.script.get("durs", [])}
        self.dur_default = float(self.script.get("dur_default", 1.0))
        self.log = EventLog()
        self.seams = None
        self.cwd = scratch_cwd()
        self.clock = VirtualClock(lambda: self.seams, faults=plan.get("clock_faults"))
        self.disk = SimDisk(lambda: self.seams, self.cwd, bufsize=plan["config"].get("buffer", 8192))
        self.osshim = OsShim(self.disk)
        self.disk.on_commit = self.note_commit
        self._expected = None
        self.high_water = {}          # canonical parameter combination -> most repetitions ever durably saved
        self.calls = {}
        self.serial = 0
        self.exec_ok = {}
        self.trace = []
        self.hook_log = []
        self.kept_sets = []
        self.var_elapsed = {}
        self.faults = {}
        self.probes = {}
        self.states = []
        self.sim_time = 0.0
        self.runner = None
        self.runner_pname = None
        self.cur_rep_max = None
        self.cur_v = None
        self.succ_in_v = {}
        self.loaded_in_v = {}
        self.inc_index = 0
        self.inc_calls = 0
        self.step_cap = 10 ** 9
        self.mutating = plan.get("mutating_user")     # name of a list-valued fixed parameter the user program modifies in place
        self.param_leak = None
        self.record_last = record_last
        self.record_lines = record_lines
        self.recorded_kinds = None
        self.recorded_lines = None
        self.res = new_result()

    def drop_mut(self, d):
        if self.mutating:
            d = dict(d)
            d.pop(self.mutating, None)
        return d

    # ---- script -----------------------------------------------------------
    def outcome(self, pname, v, c):
        dur = self.durs.get((pname, v, c), self.dur_default)
        if (pname, v, c) in self.skipset:
            return ("skip", None, None, dur)
        return ("ok", val_of(v, c), tot_of(v, c), dur)

    # ---- names (library's public naming helpers; naming is not under test) --
    def names(self, cfg):
        sp = SimulationParameters()
        for name in sorted(cfg["fixed"]):
            sp.add(name, plan_val(cfg["fixed"][name]))
        for name in sorted(cfg["unpacked"]):
            spec = cfg["unpacked"][name]
            sp.add(name, np.array(spec["values"]) if spec.get("array") else list(spec["values"]))
            sp.set_unpack_parameter(name)
        sp.add("rep_max", cfg["rep_max"])
        raw = cfg["results_name"] + cfg.get("ext", "")
        sr = SimulationResults()
        sr.set_parameters(sp)
        base = sr.get_filename_with_replaced_params(raw)
        raw_final = raw if os.path.splitext(raw)[-1] != "" else raw + ".pickle"
        final = sr.get_filename_with_replaced_params(raw_final)
        parts = [get_partial_results_filename(base, cp, cfg.get("partial_folder", "partial_results"))
                 for cp in sp.get_unpacked_params_list()]
        return final, parts

    # ---- observer: high-water mark of durably saved work ---------------------
    def expected_partial_paths(self):
        if self._expected is None:
            from simkit.seams import _norm
            self._expected = set()
            for cfg in self.cfgs.values():
                if cfg.get("results_name") is not None:
                    self._expected |= {_norm(p, self.cwd) for p in self.names(cfg)[1]}
        return self._expected

    def note_commit(self, path):
        if path not in self.expected_partial_paths():
            return
        d = self.read_partial(path, None, None)
        if d["state"] != "ok" or d["rep"] != len(d["ids"]):
            return
        key = path + "|" + json.dumps(d["params"], sort_keys=True, default=str)
        if d["rep"] > self.high_water.get(key, (0,))[0]:
            self.high_water[key] = (d["rep"], list(d["ids"]))

    def final_file_ids(self, final_name):
        from simkit.seams import _norm
        p = _norm(final_name, self.cwd)
        if p not in self.disk.files:
            return None
        data = bytes(self.disk.files[p])
        try:
            if p.endswith(".json"):
                dd = json.loads(data.decode("utf-8"))
                return [[int(x) for x in rr["value_list"]] for rr in dd["results"]["ids"]]
            obj = pickle.loads(data)
            return [[int(x) for x in rr._value_list] for rr in obj._results["ids"]]
        except Exception:
            return None

    def check_not_lost(self, pid, res, step, cfg, final_name, durable, after_fault):
        """Work that was once durably saved for a parameter combination is still
        there (same or more repetitions, in its partial file or in the final
        results file) when the next process starts."""
        if final_name is None:
            return
        from simkit.seams import _norm
        vs = variations_of(cfg)
        parts = self.names(cfg)[1]
        fin = None
        for v, d in enumerate(durable):
            key = _norm(parts[v], self.cwd) + "|" + json.dumps(canon_params(vs[v]), sort_keys=True, default=str)
            hw = self.high_water.get(key)
            if hw is None:
                continue
            if d["state"] == "ok" and d["rep"] >= hw[0]:
                continue
            if d["state"] in ("foreign", "foreign_index_only"):
                continue
            if fin is None:
                fin = self.final_file_ids(final_name) or []
            if v < len(fin) and len(fin[v]) >= 1:
                continue      # a loadable results file holds a finished result for this combination
            add_violation(res, pid + ".durable_not_lost", step,
                          "variation %d had %d repetitions durably saved (ids %s); now its partial file is %s and the results file does not hold them" % (
                              v, hw[0], hw[1][:6], {kk: d.get(kk) for kk in ("state", "rep", "why")}),
                          {"after_fault": after_fault, "file_state": d["state"]})
            return

    # ---- trusted reader of the disk ---------------------------------------
    def read_partial(self, path, expect_params, expect_index):
        from simkit.seams import _norm
        p = _norm(path, self.cwd)
        if p not in self.disk.files:
            return {"state": "absent"}
        data = bytes(self.disk.files[p])
        if len(data) == 0:
            return {"state": "empty"}
        try:
            obj = pickle.loads(data)
            ids = obj._results["ids"][-1]
            out = {
                "state": "ok", "rep": int(obj.current_rep), "ids": [int(i) for i in ids._value_list],
                "ids_updates": int(ids.num_updates), "ids_sum": int(ids._value),
                "cnt": int(obj._results["cnt"][-1]._value),
                "errv": int(obj._results["err"][-1]._value), "errt": int(obj._results["err"][-1]._total),
                "params": canon_params(obj._params.parameters), "index": int(obj._params._unpack_index),
            }
            if "hist" in obj._results:
                out["hist"] = [int(x) for x in np.asarray(obj._results["hist"][-1]._value).ravel()]
        except Exception as e:
            return {"state": "torn", "why": "%s: %s" % (type(e).__name__, e)}
        if expect_params is not None:
            idx_ok = (out["index"] == expect_index) or (expect_index == 0 and out["index"] == -1)
            if out["params"] != canon_params(expect_params):
                out["state"] = "foreign"
            elif not idx_ok:
                out["state"] = "foreign_index_only"
        return out

    def observe_durable(self, cfg):
        """Per variation of cfg: what a restarted process can find on disk."""
        if cfg.get("results_name") is None:
            return None, None, [{"state": "absent"} for _ in variations_of(cfg)]
        final, parts = self.names(cfg)
        vs = variations_of(cfg)
        nunp = len(cfg["unpacked"])
        obs = []
        for i, (path, vd) in enumerate(zip(parts, vs)):
            obs.append(self.read_partial(path, vd, i if nunp else -1))
        return final, parts, obs

    # ---- reference runner ---------------------------------------------------
    def predict(self, pname, cfg, call, rep_max, durable):
        vs = variations_of(cfg)
        if self.mutating:
            vs = [{k: v for k, v in d.items() if k != self.mutating} for d in vs]
        rule = self.script.get("stop", {"kind": "always"})
        idxs = list(range(len(vs))) if call["kind"] == "all" else [call["i"]]
        calls = dict(self.calls)
        serial = self.serial
        trace = []
        per_v = {}
        refuse_at = None
        undefined = False
        for v in idxs:
            d = durable[v]
            if d["state"] == "foreign":
                refuse_at = v
                break
            if d["state"] == "foreign_index_only":
                undefined = True
                break
            key = (pname, v)
            skipped = 0              # the runner's own 'num_skipped_reps' result starts again with every (re)start of a variation
            elapsed = 0.0            # virtual seconds spent in this variation in this incarnation
            if d["state"] == "ok":
                rep, ids, cnt, errv, errt = d["rep"], list(d["ids"]), d["cnt"], d["errv"], d["errt"]
                loaded = True
            else:
                loaded = False
                ids, cnt, errv, errt = [], 0, 0, 0
                while True:          # first repetition: a skipped repetition is never counted -> try again
                    c = calls.get(key, 0)
                    calls[key] = c + 1
                    kind, val, tot, dur_ = self.outcome(pname, v, c)
                    elapsed += dur_
                    trace.append((v, c, kind, canon_params(vs[v])))
                    if kind != "ok":
                        skipped += 1
                    if kind == "ok":
                        serial += 1
                        ids.append(serial)
                        cnt, errv, errt = val, val, tot
                        break
                    if len(trace) > 100000:
                        raise HarnessError("script never succeeds")
                rep = 1
            while stop_eval(rule, cnt, errv, errt, rep, skipped, elapsed) and rep < rep_max:
                c = calls.get(key, 0)
                calls[key] = c + 1
                kind, val, tot, dur_ = self.outcome(pname, v, c)
                elapsed += dur_
                trace.append((v, c, kind, canon_params(vs[v])))
                if kind != "ok":
                    skipped += 1
                if kind == "ok":
                    serial += 1
                    ids.append(serial)
                    cnt += val
                    errv += val
                    errt += tot
                    rep += 1
                if len(trace) > 200000:
                    raise HarnessError("model runaway")
            per_v[v] = {"rep": rep, "ids": ids, "cnt": cnt, "errv": errv, "errt": errt, "loaded": loaded}
        return {"trace": trace, "per_v": per_v, "refuse_at": refuse_at, "undefined": undefined, "idxs": idxs}

    # ---- one incarnation of the real code -----------------------------------
    def build_runner(self, cfg, pname):
        # the user's rules (_run_simulation, _keep_going, the hooks) are written in the leaf class or inherited from a base
        # class of the simulated runner (e.g. one base simulator, several thin subclasses)
        return (ScriptedRunnerChild if cfg.get("inherited_rules") else ScriptedRunner)(self, cfg, pname)

    def run_incarnation(self, k, inc, last):
        pname = inc.get("params", "P1")
        cfg = self.cfgs[pname]
        fault = inc.get("fault")
        rec = self.record_last and last
        seams = Seams(self.log, fault, record=rec)
        seams.disk = self.disk
        self.seams = seams
        self.disk.dead = False
        self.inc_index = k
        self.inc_calls = 0
        self.trace = []
        self.hook_log = []
        self.kept_sets = []
        self.var_elapsed = {}
        self.succ_in_v = {}
        self.loaded_in_v = {}
        self.cur_v = None
        outcome, exc = "completed", None
        line_mode = (fault is not None and "line" in fault) or (rec and self.record_lines)
        lines_rec = [] if (rec and self.record_lines) else None

        def local(frame, event, arg):
            if event == "line" and not seams.crashing:
                seams.line_n += 1
                if lines_rec is not None:
                    lines_rec.append("%s:%d" % (os.path.basename(frame.f_code.co_filename), frame.f_lineno))
                f = seams.fault
                if f is not None and not seams.fired and f.get("line") == seams.line_n:
                    seams.fired = True
                    where = "%s:%d" % (os.path.basename(frame.f_code.co_filename), frame.f_lineno)
                    seams.fired_kind = "line:" + where
                    seams.crashing = True
                    if f.get("action", "kill_soft") == "kill_hard":
                        self.disk.dead = True
                    self.log.add("FAULT", f.get("action"), "line", where)
                    raise (SimCrash if f.get("action", "kill_soft") == "kill_hard" else SimInterrupt)("kill at line event %d (%s)" % (seams.line_n, where))
            return local

        def glob(frame, event, arg):
            if frame.f_code.co_filename.startswith(SIM_DIR):
                return local
            return None

        same = bool(inc.get("same_runner")) and self.runner is not None and self.runner_pname == pname
        live_key = inc.get("live_setitem")
        if live_key is not None and self.runner is not None and self.runner_pname != pname and live_key in cfg["fixed"]:
            # the previous runner object lives on; one fixed parameter is changed on it by item assignment
            self.runner.params[live_key] = plan_val(cfg["fixed"][live_key])
            self.runner_pname = pname
            self.runner.pname = pname          # the scripted user program now plays the part written for these parameters
            same = True
            bump(self.probes, "parameter_changed_by_item_assignment_on_a_live_runner")
        real_stdout = sys.stdout
        try:
            if line_mode:
                sys.settrace(glob)
            try:
                if not same:
                    self.runner = None
                    self.runner = self.build_runner(cfg, pname)
                    self.runner_pname = pname
                    self.cur_rep_max = cfg["rep_max"]
                rg = getattr(self, "pending_regrid", None)
                if rg is not None and same:
                    self.pending_regrid = None
                    if rg.get("reverse_in_hook") is not None:
                        # the user program re-orders the sweep in its _on_simulate_start hook (the runner unpacks afterwards)
                        spec_ = cfg["unpacked"][rg["reverse_in_hook"]]
                        self.runner.hook_edit = (rg["reverse_in_hook"], np.array(spec_["values"]) if spec_.get("array") else list(spec_["values"]))
                        bump(self.probes, "grid_reordered_in_the_start_hook")
                    elif rg.get("unmark") is not None:
                        self.runner.params.set_unpack_parameter(rg["unmark"], False)
                        bump(self.probes, "parameter_unmarked_on_a_live_runner")
                    elif rg.get("mark") is not None and rg["mark"] in cfg["unpacked"]:
                        self.runner.params.set_unpack_parameter(rg["mark"])
                        bump(self.probes, "parameter_marked_on_a_live_runner")
                if inc.get("set_rep_max") is not None:
                    self.runner.rep_max = int(inc["set_rep_max"])
                    self.cur_rep_max = int(inc["set_rep_max"])
                if inc.get("set_delete") is not None:
                    self.runner.delete_partial_results_bool = bool(inc["set_delete"])
                if cfg.get("progress"):
                    sys.stdout = io.StringIO()          # the progress bar of this style prints to the screen
                    bump(self.probes, "progress_bar_style_" + cfg["progress"])
                if inc["call"]["kind"] == "all":
                    self.runner.simulate()
                elif inc["call"].get("as_str"):
                    self.runner.simulate(str(inc["call"]["i"]))       # command-line style index
                else:
                    self.runner.simulate(inc["call"]["i"])
            finally:
                sys.stdout = real_stdout
                if line_mode:
                    sys.settrace(None)
        except SimCrash:
            outcome = "crashed"
        except StepCap:
            outcome = "stepcap"
        except PlanTimeout:
            if seams.fired:
                raise
            outcome = "hang"           # the code under test did not return although no fault was injected in this incarnation
        except HarnessError:
            raise
        except BaseException as e:     # noqa: B902  (we classify, never swallow)
            outcome, exc = "exception", e
        if fault is not None and seams.fired:
            if "line" in fault:
                bump(self.faults, "kill@line:" + fault.get("action", "kill_soft").split("_")[1])
            elif seams.fired_kind == "disk:write":
                pass                   # counted as torn@write by the disk
            else:
                site = seams.fired_kind.split(":")[0]
                site = {"cb": "cb", "clk": "clk", "disk": "disk"}.get(site, site)
                act = fault.get("action", "kill_soft")
                if act == "oserror" and not seams.crashing:
                    bump(self.faults, "ioerr@" + site)
                else:
                    bump(self.faults, "%s@%s" % ("kill" if act == "kill_hard" else "interrupt", site))
        for kk, vv in self.disk.counts.items():
            bump(self.faults, kk, vv)
        self.disk.counts = {}
        if rec:
            self.recorded_kinds = list(seams.kinds)
            self.recorded_lines = lines_rec if lines_rec is not None else seams.line_n
        self.disk.dead = False
        self.seams = None
        return {"outcome": outcome, "exc": exc, "fired": seams.fired, "fired_kind": seams.fired_kind,
                "crashing": seams.crashing, "events": seams.n, "lines": seams.line_n, "context": seams.context}


# --------------------------------------------------------------------------
# execute a plan
# --------------------------------------------------------------------------
def _install(w):
    saved = {
        "run_time": RUN_mod.__dict__.get("time"), "run_os": RUN_mod.__dict__.get("os"),
        "run_open": RUN_mod.__dict__.get("open", None), "res_open": R_mod.__dict__.get("open", None),
        "res_os": R_mod.__dict__.get("os"), "par_open": P_mod.__dict__.get("open", None),
        "par_os": P_mod.__dict__.get("os", None), "cwd": os.getcwd(),
    }
    saved["run_pb3"] = RUN_mod.__dict__.get("ProgressbarText3")
    if saved["run_pb3"] is not None:
        # the "Current Variation" banner has sys.stdout bound as a default argument at import time: give it a sink
        RUN_mod.ProgressbarText3 = functools.partial(saved["run_pb3"], output=io.StringIO())
    RUN_mod.time = w.clock.read
    RUN_mod.os = w.osshim
    RUN_mod.open = w.disk.open
    R_mod.open = w.disk.open
    R_mod.os = w.osshim
    P_mod.open = w.disk.open
    P_mod.os = w.osshim
    os.chdir(w.cwd)
    return saved


def _restore(saved):
    if saved.get("run_pb3") is not None:
        RUN_mod.ProgressbarText3 = saved["run_pb3"]
    RUN_mod.time = saved["run_time"]
    RUN_mod.os = saved["run_os"]
    for mod, key in ((RUN_mod, "run_open"), (R_mod, "res_open"), (P_mod, "par_open")):
        if saved[key] is None:
            mod.__dict__.pop("open", None)
        else:
            mod.open = saved[key]
    R_mod.os = saved["res_os"]
    if saved["par_os"] is None:
        P_mod.__dict__.pop("os", None)
    else:
        P_mod.os = saved["par_os"]
    os.chdir(saved["cwd"])


def file_state_key(d):
    return d["state"] if d else "none"


def check_durable_consistency(w, pid, res, step, after_fault):
    """Every parseable partial file must describe exactly the repetitions it
    contains: current_rep == number of ids, each id a distinct successful
    repetition of that very variation, sums equal to those repetitions."""
    for pname, cfg in w.cfgs.items():
        if cfg.get("results_name") is None:
            continue
        _, parts, obs = w.observe_durable(cfg)
        for v, d in enumerate(obs):
            if d["state"] != "ok":
                continue
            ids = d["ids"]
            prob = None
            if len(set(ids)) != len(ids):
                prob = "duplicate repetition ids %s" % ids
            elif d["rep"] != len(ids) or d["ids_updates"] != len(ids):
                prob = "current_rep=%d num_updates=%d but %d repetitions stored" % (d["rep"], d["ids_updates"], len(ids))
            else:
                cnt = errv = errt = 0
                for i in ids:
                    e = w.exec_ok.get(i)
                    if e is None or e[1] != v or e[0] not in w.cfgs:
                        prob = "id %s is not a successful repetition of variation %d" % (i, v)
                        break
                    if canon_params(variations_of(w.cfgs[e[0]])[e[1]]) != d["params"]:
                        prob = "id %s was executed under other parameters" % i
                        break
                    cnt += e[3]
                    errv += e[3]
                    errt += e[4]
                if prob is None and (cnt, errv, errt, sum(ids)) != (d["cnt"], d["errv"], d["errt"], d["ids_sum"]):
                    prob = "stored sums (%s,%s,%s) are not the merge of the stored repetitions (%s,%s,%s)" % (
                        d["cnt"], d["errv"], d["errt"], cnt, errv, errt)
                if prob is None and "hist" in d and d["hist"] != hist_sum(ids):
                    prob = "stored array result %s is not the merge of the stored repetitions %s" % (d["hist"], hist_sum(ids))
            if prob:
                add_violation(res, pid + ".durable_consistent", step,
                              "partial file of %s variation %d: %s" % (pname, v, prob),
                              {"after_fault": after_fault})
                return


def execute(plan, record_last=False, record_lines=False):
    pid = plan.get("property", "C07")
    w = World(plan, record_last, record_lines)
    res = w.res
    saved = _install(w)
    had_fault = False
    try:
        incs = plan["incarnations"]
        for k, inc in enumerate(incs):
            last = (k == len(incs) - 1)
            pname = inc.get("params", "P1")
            cfg = w.cfgs[pname]
            fault = inc.get("fault")
            same = bool(inc.get("same_runner")) and w.runner is not None and w.runner_pname == pname
            if inc.get("live_setitem") is not None and w.runner is not None and w.runner_pname != pname and inc["live_setitem"] in cfg["fixed"]:
                same = True        # the previous runner OBJECT lives on (one parameter is re-assigned on it): it keeps the rep_max it has
            rg_ = inc.get("regrid")
            if rg_ and same and cfg.get("results_name") is None and not plan.get("mutating_user") and (
                    rg_.get("unmark") in cfg["unpacked"] or rg_.get("reverse_in_hook") in cfg["unpacked"]
                    or isinstance(cfg["fixed"].get(rg_.get("mark")), (list, dict))):
                cfg = w.cfgs[pname] = regrid_cfg(cfg, rg_)
                w.pending_regrid = rg_
            rep_max = inc.get("set_rep_max") if inc.get("set_rep_max") is not None else (
                w.cur_rep_max if same else cfg["rep_max"])
            final_name, parts, durable = w.observe_durable(cfg)
            if k > 0:
                w.check_not_lost(pid, res, k, cfg, final_name, durable, had_fault)
                if res["status"] != "ok":
                    break
            pred = w.predict(pname, cfg, inc["call"], rep_max, durable)
            if pred["undefined"]:
                bump(w.probes, "plan_outside_quantifier(index-only mismatch)")
                break
            w.step_cap = 10 * (len(pred["trace"]) + 10)
            for v in pred["idxs"]:
                if v in pred["per_v"] and pred["per_v"][v]["loaded"]:
                    w.loaded_in_v[v] = True
            if same and k > 0 and had_fault:
                bump(w.probes, "in_process_restart_on_the_same_runner")
            serial_before = w.serial
            pre_states = [file_state_key(d) for d in durable]
            rep = w.run_incarnation(k, inc, last)
            for v in pred["idxs"]:
                if v in pred["per_v"] and pred["per_v"][v]["loaded"]:
                    w.loaded_in_v[v] = True
            if w.disk.problem:
                raise HarnessError(w.disk.problem)
            leftovers = os.listdir(w.cwd)
            if leftovers:
                for n in leftovers:
                    try:
                        os.remove(os.path.join(w.cwd, n))
                    except OSError:
                        pass
                raise HarnessError("real file I/O escaped the simulated disk: %s" % leftovers)
            res["steps"] += rep["events"]
            sig_f = {"after_fault": had_fault}
            # ---- probes / abstract state --------------------------------
            for v, d in enumerate(durable):
                if d["state"] in ("empty", "torn") and k > 0:
                    bump(w.probes, "restart_found_%s_partial_file" % d["state"])
                if d["state"] == "ok" and k > 0 and v in pred["idxs"]:
                    if d["rep"] >= rep_max:
                        bump(w.probes, "resume_loaded_finished_variation")
                    else:
                        bump(w.probes, "resume_mid_variation")
                if d["state"] == "foreign":
                    bump(w.probes, "foreign_partial_file_present")
            if rep["fired"]:
                had_fault_now = True
                nv = len(durable)
                cv = w.cur_v
                vpos = "none" if cv is None else ("only" if nv == 1 else "first" if cv == 0 else "last" if cv == nv - 1 else "middle")
                if cv is not None and parts is not None and cv < len(parts):
                    _, _, dnow = w.observe_durable(cfg)
                    fstate = pre_states[cv] + ">" + dnow[cv]["state"]
                    if dnow[cv]["state"] == "empty":
                        bump(w.probes, "crash_left_empty_partial_file")
                    if dnow[cv]["state"] == "torn":
                        bump(w.probes, "crash_left_torn_partial_file")
                else:
                    fstate = "nofile"
                succ = w.succ_in_v.get(cv, 0) if cv is not None else 0
                rcls = "before_first" if succ == 0 else "interior"
                site = rep["fired_kind"]
                res["state_keys"].append("%s|%s|%s|%s|%s" % (fault.get("action"), site, vpos, rcls, fstate))
            else:
                had_fault_now = False
                if fault is not None:
                    bump(w.probes, "planned_fault_never_reached")
            # ---- verdicts -------------------------------------------------
            real = w.trace
            exp = pred["trace"]
            if rep["outcome"] == "hang":
                add_violation(res, pid + ".liveness", k, "incarnation %d did not return within the per-plan wall limit although no fault was injected in it (durable state before: %s)" % (
                    k, [(d["state"], d.get("rep")) for d in durable]), dict(sig_f, kind="wall"))
                break
            if rep["outcome"] == "stepcap":
                add_violation(res, pid + ".liveness", k, "incarnation %d made more than %d calls to the user iteration (model: %d)" % (
                    k, w.step_cap, len(exp)), sig_f)
                break
            # (a) call trace is the model's (prefix if the incarnation was cut short)
            n = len(real)
            if real != exp[:n]:
                j = next((i for i in range(min(n, len(exp))) if real[i] != exp[i]), min(n, len(exp)))
                add_violation(res, pid + ".trace", k,
                              "incarnation %d: call #%d to the user iteration was %s, reference runner expects %s (durable state before: %s)" % (
                                  k, j, real[j] if j < n else None, exp[j] if j < len(exp) else "no further call",
                                  [(d["state"], d.get("rep")) for d in durable]), sig_f)
                break
            if w.param_leak is not None:
                add_violation(res, pid + ".params", k, w.param_leak, sig_f)
                break
            genuine_exc = rep["outcome"] == "exception" and not rep["fired"]
            if pred["refuse_at"] is not None:
                if rep["outcome"] == "completed":
                    add_violation(res, pid + ".refuse_foreign", k,
                                  "partial results of variation %d were saved for other parameters %s but simulate() returned normally" % (
                                      pred["refuse_at"], durable[pred["refuse_at"]].get("params")), sig_f)
                    break
                if genuine_exc:
                    bump(w.probes, "foreign_partial_file_refused")
                    check_durable_consistency(w, pid, res, k, had_fault)
                    if res["status"] != "ok":
                        break
                    had_fault = had_fault or had_fault_now
                    continue
            if genuine_exc:
                e = rep["exc"]
                first_skip = isinstance(e, SkipThisOne)
                add_violation(res, pid + ".completes", k,
                              "incarnation %d raised %s: %s before any fault was injected (durable state before: %s)" % (
                                  k, type(e).__name__, str(e)[:200], [(d["state"], d.get("rep")) for d in durable]),
                              {"exc": type(e).__name__, "after_fault": had_fault,
                               "file_states": sorted(set(d["state"] for d in durable))})
                break
            if rep["outcome"] == "completed":
                if n != len(exp):
                    add_violation(res, pid + ".trace", k, "incarnation %d stopped after %d calls, reference runner makes %d (next expected %s)" % (
                        k, n, len(exp), exp[n]), sig_f)
                    break
                _check_completed(w, pid, res, k, inc, cfg, pname, pred, final_name, parts, sig_f, plan)
                # abstract state of a completed call (coverage measure only)
                rule = w.script.get("stop", {}).get("kind", "always")
                reps = [pv["rep"] for pv in pred["per_v"].values()]
                where = "none" if not reps else ("rep1" if min(reps) == 1 and rep_max > 1 else "limit" if min(reps) >= rep_max else "middle")
                nsk = sum(1 for t in real if t[2] == "skip")
                first_skip = any(t[2] == "skip" and t[1] == 0 for t in real)
                res["state_keys"].append("done|unp=%d|nv=%s|stop=%s@%s|skips=%s|firstskip=%s|call=%s|k=%d|same=%s|loaded=%s|repmax=%s" % (
                    len(cfg["unpacked"]), min(len(durable), 9), rule, where, min(nsk, 3), first_skip, inc["call"]["kind"], k,
                    bool(inc.get("same_runner")), sum(1 for pv in pred["per_v"].values() if pv["loaded"]) > 0,
                    "big" if rep_max >= 400 else "small"))
                if res["status"] != "ok":
                    break
            check_durable_consistency(w, pid, res, k, had_fault)
            if res["status"] != "ok":
                break
            had_fault = had_fault or had_fault_now
    finally:
        _restore(saved)
        w.seams = None
    for kk, vv in w.clock.fired.items():
        bump(w.faults, kk, vv)
    res["faults"] = w.faults
    res["probes"] = w.probes
    res["sim_time"] = w.sim_time
    res["digest"] = w.log.digest()
    nf = sum(v for kf, v in w.faults.items())
    res["nontrivial"] = nf > 0 or len(plan["incarnations"]) > 1 or len(plan["config"]["unpacked"]) > 0
    res["_world"] = w if record_last else None
    return res


def _check_completed(w, pid, res, k, inc, cfg, pname, pred, final_name, parts, sig_f, plan):
    r = w.runner
    per_v = pred["per_v"]
    if inc["call"]["kind"] == "index":
        i = inc["call"]["i"]
        if r.runned_reps != per_v[i]["rep"]:
            add_violation(res, pid + ".counts", k, "simulate(%d): runned_reps=%r, executed %d" % (i, r.runned_reps, per_v[i]["rep"]), sig_f)
            return
        _, _, dnow = w.observe_durable(cfg)
        d = dnow[i]
        if d["state"] != "ok" or d["rep"] != per_v[i]["rep"] or d["ids"] != per_v[i]["ids"]:
            add_violation(res, pid + ".merge", k, "simulate(%d): partial results file holds %s, expected rep=%d ids=%s" % (
                i, {kk: d.get(kk) for kk in ("state", "rep", "ids", "why")}, per_v[i]["rep"], per_v[i]["ids"]), sig_f)
        return
    # the per-variation hooks received the right combination and, at the end, exactly that variation's merged results
    vs_ = [w.drop_mut(d) for d in variations_of(cfg)]
    want_hooks = []
    for v in pred["idxs"]:
        want_hooks.append(("start", v, canon_params(vs_[v]), None))
        want_hooks.append(("finish", v, canon_params(vs_[v]), per_v[v]["ids"]))
    if w.hook_log != want_hooks:
        j = next((i for i in range(min(len(w.hook_log), len(want_hooks))) if w.hook_log[i] != want_hooks[i]), min(len(w.hook_log), len(want_hooks)))
        add_violation(res, pid + ".hooks", k, "per-variation hook call #%d was %s, expected %s" % (
            j, w.hook_log[j] if j < len(w.hook_log) else None, want_hooks[j] if j < len(want_hooks) else None), sig_f)
        return
    for (v_, set_, ids_) in w.kept_sets:
        try:
            now_lists = {nm: len(set_[nm]) for nm in ("ids", "cnt", "err")}
            now_ids = [int(i) for i in set_["ids"][-1]._value_list]
        except Exception as ex_:       # noqa: BLE001
            now_lists, now_ids = {"unreadable": type(ex_).__name__}, None
        if any(n_ != 1 for n_ in now_lists.values()) or now_ids != ids_:
            add_violation(res, pid + ".hooks", k, "the result set handed to the finish hook for variation %d changed after the hook returned: it now holds %s result(s) per name, ids %s (was 1 per name, ids %s)" % (
                v_, now_lists, now_ids, ids_), dict(sig_f, result="kept_set"))
            return
    exp_reps = [per_v[v]["rep"] for v in pred["idxs"]]
    if list(r.runned_reps) != exp_reps:
        add_violation(res, pid + ".counts", k, "runned_reps=%r but the executed successful repetitions per variation are %r" % (
            r.runned_reps, exp_reps), sig_f)
        return
    results = r.results
    try:
        for name in ("ids", "cnt", "err"):
            if len(results[name]) != len(exp_reps):
                add_violation(res, pid + ".merge", k, "%d stored '%s' results for %d variations" % (len(results[name]), name, len(exp_reps)), sig_f)
                return
        for v in pred["idxs"]:
            e = per_v[v]
            ids = results["ids"][v]
            got = (list(ids._value_list), ids.get_result(), ids.num_updates, results["cnt"][v].get_result(),
                   results["err"][v]._value, results["err"][v]._total, results["cnt"][v].num_updates)
            want = (e["ids"], sum(e["ids"]), e["rep"], e["cnt"], e["errv"], e["errt"], e["rep"])
            if got != want:
                add_violation(res, pid + ".merge", k,
                              "variation %d: stored (ids, sum, updates, cnt, err value, err total, cnt updates)=%s, merge of its successful repetitions=%s (loaded=%s)" % (
                                  v, got, want, e["loaded"]), dict(sig_f, loaded=e["loaded"]))
                return
            last = results["last"][v].get_result()
            if last != "m%d" % e["ids"][-1]:
                add_violation(res, pid + ".merge", k, "variation %d: misc result %r is not the last repetition's (m%d) (loaded=%s)" % (v, last, e["ids"][-1], e["loaded"]),
                              dict(sig_f, loaded=e["loaded"], result="misc"))
                return
            chr_ = results["ch"][v]
            want_ch = [sum(1 for i in e["ids"] if i % 3 == c) for c in range(3)]
            got_ch = [int(x) for x in chr_._value]
            if got_ch != want_ch or int(chr_._total) != len(e["ids"]):
                add_violation(res, pid + ".merge", k, "variation %d: choice counts %s / total %s, the successful repetitions give %s / %d (loaded=%s)" % (
                    v, got_ch, chr_._total, want_ch, len(e["ids"]), e["loaded"]), dict(sig_f, loaded=e["loaded"], result="choice"))
                return
            if k == 0 and not plan.get("clock_faults") and not e["loaded"] and not sig_f.get("after_fault"):
                # what the runner itself records per repetition obeys the same law: the skipped repetitions are counted
                # as skipped, and the stored elapsed time is the sum over the successful repetitions (virtual clock)
                nskip = sum(1 for t in w.trace if t[0] == v and t[2] == "skip")
                dsum = sum(w.outcome(pname, t[0], t[1])[3] for t in w.trace if t[0] == v and t[2] == "ok")
                got_sk = results["num_skipped_reps"][v].get_result()
                got_el = float(results["elapsed_time"][v].get_result())
                if int(got_sk) != nskip:
                    add_violation(res, pid + ".counts", k, "variation %d: num_skipped_reps=%r but %d repetitions were skipped" % (v, got_sk, nskip),
                                  dict(sig_f, result="num_skipped_reps"))
                    return
                if abs(got_el - dsum) > 1e-5 * (1 + len(e["ids"])):
                    add_violation(res, pid + ".merge", k, "variation %d: stored elapsed_time %.9g, the successful repetitions took %.9g (virtual seconds)" % (v, got_el, dsum),
                                  dict(sig_f, result="elapsed_time"))
                    return
                bump(w.probes, "runner_recorded_extras_checked")
            if w.script.get("hist"):
                got_h = [int(x) for x in np.asarray(results["hist"][v].get_result()).ravel()]
                if got_h != hist_sum(e["ids"]) or results["hist"][v].num_updates != e["rep"]:
                    add_violation(res, pid + ".merge", k, "variation %d: array-valued sum result %s (%d updates), the successful repetitions give %s (%d) (loaded=%s, buffer %s)" % (
                        v, got_h, results["hist"][v].num_updates, hist_sum(e["ids"]), e["rep"], e["loaded"], w.script.get("hist")),
                        dict(sig_f, loaded=e["loaded"], result="array"))
                    return
    except (KeyError, IndexError, AttributeError) as ex:
        add_violation(res, pid + ".merge", k, "stored results unusable: %s: %s" % (type(ex).__name__, ex), sig_f)
        return
    # look-ups by fixed parameter values
    if plan.get("lookups", True):
        vs = variations_of(cfg)
        names = sorted(cfg["unpacked"])
        nchecks = 0
        for rsub in range(0, len(names) + 1):
            for sub in itertools.combinations(names, rsub):
                for vals in itertools.product(*[cfg["unpacked"][nm]["values"] for nm in sub]):
                    if nchecks >= 60:
                        break
                    nchecks += 1
                    fixed = dict(zip(sub, vals))
                    if rsub and (nchecks % 3 == 0) and cfg["fixed"]:
                        fk = sorted(cfg["fixed"])[0]
                        fixed[fk] = cfg["fixed"][fk]
                    want = [per_v[v]["cnt"] for v in range(len(vs)) if all(vs[v][a] == b for a, b in zip(sub, vals))]
                    try:
                        got = [canon_val(x) for x in results.get_result_values_list("cnt", fixed)]
                    except Exception as ex:
                        add_violation(res, pid + ".lookup", k, "get_result_values_list('cnt', %r) raised %s: %s" % (fixed, type(ex).__name__, ex), sig_f)
                        return
                    if got != want:
                        add_violation(res, pid + ".lookup", k, "get_result_values_list('cnt', %r) = %s, matching combinations hold %s" % (fixed, got, want), sig_f)
                        return
    # final artefact
    if final_name is not None:
        from simkit.seams import _norm
        p = _norm(final_name, w.cwd)
        if p not in w.disk.files:
            add_violation(res, pid + ".final_file", k, "results file %r was not written" % p, sig_f)
            return
        data = bytes(w.disk.files[p])
        try:
            if p.endswith(".json"):
                d = json.loads(data.decode("utf-8"))
                got = [[int(x) for x in rr["value_list"]] for rr in d["results"]["ids"]]
                got_rr = d["runned_reps"]
            else:
                obj = pickle.loads(data)
                got = [[int(x) for x in rr._value_list] for rr in obj._results["ids"]]
                got_rr = obj.runned_reps
        except Exception as ex:
            add_violation(res, pid + ".final_file", k, "results file %r does not load: %s: %s" % (p, type(ex).__name__, ex), sig_f)
            return
        want = [per_v[v]["ids"] for v in pred["idxs"]]
        if got != want or list(got_rr) != exp_reps:
            add_violation(res, pid + ".final_file", k, "results file holds ids %s / reps %s, run produced %s / %s" % (got, got_rr, want, exp_reps), sig_f)
            return
        if not r.delete_partial_results_bool:           # the runner's CURRENT setting (a history may have changed it)
            _, _, dnow = w.observe_durable(cfg)
            for v in pred["idxs"]:
                d = dnow[v]
                if d["state"] != "ok" or d["rep"] != per_v[v]["rep"] or d["ids"] != per_v[v]["ids"]:
                    add_violation(res, pid + ".durable_consistent", k,
                                  "after a completed run the partial file of variation %d holds %s, expected rep=%d ids=%s" % (
                                      v, {kk: d.get(kk) for kk in ("state", "rep", "ids", "why")}, per_v[v]["rep"], per_v[v]["ids"]), sig_f)
                    return
