"""C10: interference-alignment solvers return valid, power-limited, aligned
solutions, and no derived quantity goes stale after the public setters.
History machine over one solver object; the per-iteration leakage clause is
monitored while solve() runs by wrapping _step on the instance; every random
source reachable from the solver is a RandomState re-seeded from the plan."""
import copy

import numpy as np

from simkit.core import (EventLog, HarnessError, add_violation, bump, ddmin_candidates, new_result, op_time_limit, use_repo)

use_repo()
from pyphysim.channels.multiuser import MultiUserChannelMatrix   # noqa: E402
from pyphysim.ia import algorithms as ALG                        # noqa: E402

SOLVERS = {"closed": ALG.ClosedFormIASolver, "altmin": ALG.AlternatingMinIASolver, "minleak": ALG.MinLeakageIASolver,
           "maxsinr": ALG.MaxSinrIASolver, "mmse": ALG.MMSEIASolver}


def warm_up():
    pass


def seed_all_rs(obj, seed, depth=0, seen=None):
    """Documented private seam: re-seed every RandomState reachable from the solver."""
    seen = seen if seen is not None else set()
    if id(obj) in seen or depth > 3:
        return
    seen.add(id(obj))
    for name in sorted(getattr(obj, "__dict__", {})):
        v = obj.__dict__[name]
        if isinstance(v, np.random.RandomState):
            v.seed(seed + depth * 1000 + len(seen))
        elif isinstance(v, ALG.IASolverBaseClass):
            seed_all_rs(v, seed, depth + 1, seen)


def cmat(rs, r, c):
    return rs.randn(r, c) + 1j * rs.randn(r, c)


# --------------------------------------------------------------------------
# plans
# --------------------------------------------------------------------------
def gen_P(rng, K, extreme=False):
    r = rng.random()
    if extreme and r < 0.8:
        # the corner where a root search for the power constraint is hardest: tiny, huge or very unequal powers
        if r < 0.35:
            return rng.choice([1e-9, 1e-7, 1e-5, 1e-3])
        if r < 0.55:
            return [rng.choice([1e-9, 1e-7, 1e-5, 1e-3, 1.0]) for _ in range(K)]
        P = [rng.choice([100.8, 230.0, 10.0, 1.0, 1e4]) for _ in range(K)]
        P[rng.randrange(K)] = rng.choice([1e-4, 1e-3, 1e-6])
        return P
    if r < 0.3:
        return None
    if r < 0.52:
        return rng.choice([0.5, 2.0, 4.0, 10.0])
    if r < 0.6:
        return rng.choice([1e-9, 1e-7, 1e-5])          # e.g. powers in watts after a path loss
    if r < 0.72:      # very unequal powers: a weak user's dead stream is dropped by _solve_finalize
        P = [rng.choice([100.8, 230.0, 10.0, 1.0]) for _ in range(K)]
        P[rng.randrange(K)] = rng.choice([1e-4, 1e-3])
        return P
    if r > 0.93:
        return [rng.choice([1, 2, 4, 10]) for _ in range(K)]          # whole numbers, given as integers
    return [rng.choice([0.5, 1.0, 2.0, 4.0, 10.0]) for _ in range(K)]


def gen_plan(rng, tier, idx, opts):
    kind = rng.choice(["closed", "altmin", "altmin", "minleak", "minleak", "maxsinr", "mmse"])
    if opts.get("kind"):
        kind = opts["kind"]
    extreme = bool(opts.get("extreme_powers"))
    if kind == "closed":
        K = 3
        N = rng.choice([2, 4, 4, 6])
        Nr = [N] * 3
        Nt = [N] * 3
        Ns = [N // 2] * 3
    else:
        K = rng.randint(2, 4)
        if rng.random() < 0.6:
            n = rng.randint(2, 5)
            Nr = [n] * K
            Nt = [n] * K
        else:
            Nr = [rng.randint(2, 5) for _ in range(K)]
            Nt = [rng.randint(2, 5) for _ in range(K)]
        if rng.random() < 0.5:
            Ns = [1] * K
        else:
            Ns = [rng.randint(1, min(Nr[k], Nt[k]) - 1) for k in range(K)]
    init = "random"
    if kind != "closed":
        opts_i = ["random", "random", "svd", "fix"]
        if K == 3 and len(set(Nr + Nt)) == 1 and Nr[0] % 2 == 0 and all(s == Nr[0] // 2 for s in Ns):
            opts_i.append("closed_form")
        if kind != "altmin":
            opts_i.append("alt_min")
        init = rng.choice(opts_i)
    noise = None
    if kind in ("mmse", "maxsinr"):
        noise = rng.choice([1e-3, 0.1, 1.0])
    elif rng.random() < 0.2:
        noise = rng.choice([1e-3, 0.1])
    plan = {"world": "iasolver", "solver": kind, "K": K, "Nr": Nr, "Nt": Nt, "Ns": Ns, "chan_seed": rng.randrange(1 << 30),
            "rs_seed": rng.randrange(1 << 30), "noise_var": noise, "max_iterations": rng.choice([1, 2, 3, 5, 10, 20, 40, 60]),
            "init": init, "ops": []}
    ops = plan["ops"]
    sd = [rng.randrange(1 << 30)]

    def s():
        sd[0] += 1
        return sd[0]
    first = True
    for _ in range(rng.randint(2, 12)):
        r = rng.random()
        if first or r < 0.2:
            if init == "fix":
                ops.append({"op": "set_precoders", "how": "F", "seed": s(), "P": None})
            ops.append({"op": "solve", "P": gen_P(rng, K, extreme), "monitor": rng.random() < 0.6})
            first = False
        elif r < 0.3:
            ops.append({"op": "randomizeF", "P": gen_P(rng, K, extreme)})
        elif r < 0.45:
            ops.append({"op": "set_precoders", "how": rng.choice(["F", "full_F", "both"]), "seed": s(), "P": rng.choice([None, None, "gen"]) and gen_P(rng, K, extreme)})
        elif r < 0.55:
            ops.append({"op": "set_receive_filters", "how": rng.choice(["W", "W_H"]), "seed": s()})
        elif r < 0.72:
            ops.append({"op": "set_P", "P": gen_P(rng, K, extreme)})
        elif r < 0.735:
            ops.append({"op": "scribble_P", "factor": rng.choice([0.25, 0.5, 2.0])})
        elif r < 0.75:
            # an inadmissible power (an entry that is zero or negative, a wrong length, a non-positive scalar): refused, and the
            # solver must be left exactly as it was
            bad = [1.0] * K
            bad[rng.randrange(K)] = rng.choice([0.0, -1.0])
            ops.append({"op": "set_P_bad", "P": rng.choice([bad, bad, 0.0, -2.0, [1.0] * (K + 1)])})
        elif r < 0.765 and kind != "closed":
            ops.append({"op": "solve_bad", "P": gen_P(rng, K, extreme)})
            first = True
        elif r < 0.78:
            ops.append({"op": "clear"})
            first = True
        elif r < 0.80 and kind != "closed" and init != "closed_form":
            n2 = max(max(Ns) + 1, rng.randint(2, 5))
            if rng.random() < 0.5:
                nr2, nt2 = [n2] * K, [n2] * K
            else:
                nr2 = [max(Ns[k] + 1, rng.randint(2, 5)) for k in range(K)]
                nt2 = [max(Ns[k] + 1, rng.randint(2, 5)) for k in range(K)]
            ops.append({"op": "rechannel", "seed": s(), "Nr": nr2, "Nt": nt2})     # the channel object gets other dimensions
            if init == "fix":
                ops.append({"op": "set_precoders", "how": "F", "seed": s(), "P": None})
            ops.append({"op": "solve", "P": gen_P(rng, K, extreme), "monitor": rng.random() < 0.6})
        elif r < 0.84 and kind != "closed" and init not in ("fix",):
            # the stream-variation drivers of the library run their own history of solve / clear / set_precoders /
            # set_receive_filters on the SAME solver object
            ops.append({"op": "stream_search", "how": rng.choice(["greedy", "greedy", "brute"]), "P": gen_P(rng, K, extreme)})
        elif r < 0.835:
            # the channel object gets a new realisation of the SAME dimensions, then the solver solves again
            ops.append({"op": "rerandomize", "seed": s(), "P": gen_P(rng, K, extreme), "twin_first": rng.random() < 0.6})
        elif r < 0.845:
            # ANOTHER solver object is built on the same channel object and solved in between
            ops.append({"op": "other_solver", "kind": rng.choice(["altmin", "minleak", "maxsinr", "mmse"]), "P": gen_P(rng, K, extreme), "seed": s()})
        elif r < 0.855 and kind != "closed":
            ops.append({"op": "set_max_iter", "v": rng.choice([1, 1, 2, 3, 6])})      # iteration budget changed between two solves
        elif r < 0.87:
            ops.append({"op": "noise", "v": rng.choice([None, 1e-3, 0.1, 1.0]) if kind not in ("mmse", "maxsinr") else rng.choice([1e-3, 0.1, 1.0])})
        else:
            ops.append({"op": "read", "what": rng.sample(["F", "full_F", "W", "W_H", "full_W_H", "full_W", "Ns", "P", "cost"], rng.randint(1, 4))})
    return plan


# --------------------------------------------------------------------------
# execution
# --------------------------------------------------------------------------
def as_obj_array(lst):
    a = np.empty(len(lst), dtype=np.ndarray)
    for i, x in enumerate(lst):
        a[i] = x
    return a


def execute(plan):
    res = new_result()
    log = EventLog()
    pid = plan.get("property", "C10")
    K, Nr, Nt, Ns = plan["K"], plan["Nr"], plan["Nt"], plan["Ns"]
    kind = plan["solver"]
    ch = MultiUserChannelMatrix()
    ch.set_channel_seed(plan["chan_seed"])
    ch.randomize(np.array(Nr), np.array(Nt), K)
    ch.noise_var = plan["noise_var"]
    solver = SOLVERS[kind](ch)
    seed_all_rs(solver, plan["rs_seed"] % (1 << 31))
    if kind != "closed":
        solver.max_iterations = plan["max_iterations"]
        solver.initialize_with = plan["init"]
    cur = {"Ns": list(Ns), "noise": plan["noise_var"]}
    m = {"P": np.ones(K), "F_def": False, "W_def": False, "aligned": False, "last_setter": None, "derived_read": set()}
    solves = 0
    setters_after_solve = 0

    def viol(inv, step, detail, **sig):
        sg = {"solver": kind, "last_setter": m["last_setter"]}
        sg.update(sig)
        add_violation(res, pid + "." + inv, step, detail, sg)

    def set_model_P(P):
        if P is None:
            m["P"] = np.ones(K)
        elif np.isscalar(P):
            m["P"] = np.ones(K) * float(P)
        else:
            m["P"] = np.array(P, dtype=float)

    def py_P(P):
        if P is None or np.isscalar(P):
            return P
        if all(isinstance(x, int) and not isinstance(x, bool) for x in P):
            return np.array(P)                      # an integer power vector stays an integer array
        return np.array(P, dtype=float)

    def check_relations(step, after):
        """All relations of the statement that are defined in the current state."""
        P = solver.P
        if np.shape(P) != (K,) or not np.allclose(P, m["P"], rtol=1e-12, atol=0):
            viol("power", step, "solver.P is %s, the power set last is %s" % (P, m["P"]), rel="P")
            return
        if m["F_def"]:
            F = solver.F
            fF = solver.full_F
            ns = solver.Ns
            if F is None or len(F) != K:
                viol("shapes", step, "F is %r after %s" % (None if F is None else len(F), after), rel="F")
                return
            for k in range(K):
                nf = np.linalg.norm(F[k], "fro")
                if abs(nf - 1.0) > 1e-8:
                    viol("unit_norm", step, "|F[%d]|_F = %.9g after %s (Ns=%s)" % (k, nf, after, list(Ns)), rel="unit_norm", multi_stream=bool(max(Ns) > 1))
                    return
                pw = np.linalg.norm(fF[k], "fro") ** 2
                # MMSE finds the Lagrange multiplier with scipy's newton (default step tolerance 1.48e-8):
                # right after its solve() the constraint is met only up to that root-finding tolerance
                # right after its solve() the constraint is met only up to that root-finding tolerance; the
                # implementation itself documents an allowance of P/1e6 ("we allow a positive cost lower then P/1e6")
                ptol = 1e-6 if (kind == "mmse" and m.get("F_from_solve")) else 1e-8
                if pw > m["P"][k] * (1 + ptol) + 1e-12:
                    excess = pw / m["P"][k] - 1.0
                    viol("power", step, "|full_F[%d]|^2 = %.9g exceeds the current power %.9g by %.3g relative (after %s)" % (k, pw, m["P"][k], excess, after),
                         rel="exceeds", from_mmse_solve=bool(kind == "mmse" and m.get("F_from_solve")), excess_below_1e_3=bool(excess < 1e-3))
                    return
                if True:
                    if kind != "mmse" and abs(pw - m["P"][k]) > 1e-8 * m["P"][k]:
                        viol("power", step, "|full_F[%d]|^2 = %.9g but the current power is %.9g (after %s)" % (k, pw, m["P"][k], after), rel="not_met")
                        return
                if not (kind == "mmse" and m.get("F_from_solve")) and np.shape(fF[k]) == np.shape(F[k]):
                    # "unit-norm precoders whose power-scaled versions ...": full_F[k] is THE power-scaled version of F[k]
                    dev = float(np.max(np.abs(np.asarray(fF[k]) - np.sqrt(m["P"][k]) * np.asarray(F[k]))))
                    if dev > 1e-8 * np.sqrt(m["P"][k]) + 1e-15:
                        viol("power", step, "full_F[%d] is not sqrt(P[%d]) * F[%d] (max deviation %.3g) after %s: the scaled precoder belongs to other precoders" % (
                            k, k, k, dev, after), rel="scaled_version")
                        return
                if ns is None or int(ns[k]) != F[k].shape[1]:
                    viol("shapes", step, "Ns[%d]=%s but F[%d] has %d columns" % (k, None if ns is None else ns[k], k, F[k].shape[1]), rel="Ns")
                    return
        if m["W_def"]:
            W, WH = solver.W, solver.W_H
            for k in range(K):
                if W[k].shape != WH[k].shape[::-1] or not np.allclose(W[k], WH[k].conj().T, rtol=1e-12, atol=1e-14):
                    viol("shapes", step, "W[%d] is not the conjugate transpose of W_H[%d]" % (k, k), rel="W_WH")
                    return
        if m["F_def"] and m["W_def"]:
            fF = solver.full_F
            WH = solver.W_H
            ns = solver.Ns
            ok_dims = all(WH[k].shape[0] == fF[k].shape[1] for k in range(K))
            if not ok_dims:
                viol("shapes", step, "rows of W_H %s do not match the columns of F %s" % ([w.shape[0] for w in WH], [f.shape[1] for f in fF]), rel="dims")
                return
            conds = []
            for k in range(K):
                Heq = WH[k] @ ch.get_Hkl(k, k) @ fF[k]
                conds.append(np.linalg.cond(Heq))
            if max(conds) < 1e8:
                fWH = solver.full_W_H
                fW = solver.full_W
                for k in range(K):
                    E = fWH[k] @ ch.get_Hkl(k, k) @ fF[k]
                    err = float(np.max(np.abs(E - np.eye(E.shape[0]))))
                    if err > 1e-8 * conds[k] + 1e-10:
                        viol("identity", step, "full_W_H[%d] H_%d%d full_F[%d] differs from I by %.3g (cond %.3g) after %s" % (k, k, k, k, err, conds[k], after), rel="identity")
                        return
                    if int(ns[k]) != fWH[k].shape[0]:
                        viol("shapes", step, "Ns[%d]=%s but full_W_H[%d] has %d rows" % (k, ns[k], k, fWH[k].shape[0]), rel="Ns")
                        return
                    if not np.allclose(fW[k], fWH[k].conj().T, rtol=1e-10, atol=1e-13):
                        viol("identity", step, "full_W[%d] is not the conjugate transpose of full_W_H[%d] after %s" % (k, k, after), rel="full_W")
                        return
            else:
                bump(res["probes"], "ill_conditioned_equivalent_channel_skipped")
            if kind == "closed" and m["aligned"]:
                F = solver.F
                for k in range(K):
                    for l in range(K):
                        if k != l:
                            X = WH[k] @ ch.get_Hkl(k, l) @ F[l]
                            sc = np.linalg.norm(WH[k]) * np.linalg.norm(ch.get_Hkl(k, l)) * np.linalg.norm(F[l])
                            if np.max(np.abs(X)) > 1e-7 * sc:
                                viol("aligned", step, "closed form: W_H[%d] H_%d%d F[%d] = %.3g (scale %.3g), not nulled" % (k, k, l, l, float(np.max(np.abs(X))), sc), rel="aligned")
                                return

    for step, op in enumerate(plan["ops"]):
        if res["status"] != "ok":
            break
        o = op["op"]
        pre = "%d%d%d" % (solver._full_F is not None, solver._full_W_H is not None, solver._full_W is not None) if hasattr(solver, "_full_F") else "???"
        try:
            with op_time_limit(60.0):
                if o == "solve":
                    P = py_P(op["P"])
                    costs = []
                    equal_p = op["P"] is None or np.isscalar(op["P"]) or len(set(op["P"])) == 1
                    mon = op.get("monitor") and kind in ("altmin", "minleak") and equal_p and not cur["noise"]
                    if mon:
                        orig = type(solver)._step

                        def wrapped(_s=solver, _o=orig):
                            _o(_s)
                            costs.append(float(np.real(_s.get_cost())))
                        solver._step = wrapped
                    try:
                        ns_arg = int(Ns[0]) if (len(set(Ns)) == 1 and step % 3 == 0) else np.array(Ns)      # Ns as an int when all equal
                        p_arg = list(op["P"]) if (isinstance(op["P"], list) and step % 2 == 0) else P             # P as a plain list
                        m["handed_P"] = p_arg if isinstance(p_arg, np.ndarray) else None
                        solver.solve(ns_arg, p_arg)
                    finally:
                        if mon:
                            del solver._step
                    set_model_P(op["P"])
                    m["F_def"] = m["W_def"] = True
                    m["aligned"] = True
                    m["F_from_solve"] = True
                    m["cost_ok"] = True
                    got_ns = [int(x) for x in solver.Ns]
                    if got_ns != cur["Ns"]:
                        bump(res["probes"], "solve_dropped_streams")
                    cur["Ns"] = got_ns
                    m["last_setter"] = "solve"
                    solves += 1
                    for i in range(1, len(costs)):
                        if costs[i] > costs[i - 1] * (1 + 1e-9) + 1e-12:
                            # degenerate: some interference covariance has a null space of dimension >= 2 (repeated zero eigenvalue)
                            tot = sum(Ns)
                            degen = any(min(Nr[k], Nt[k]) - (tot - Ns[k]) >= 2 or max(Nr[k], Nt[k]) - (tot - Ns[k]) >= 2 for k in range(K))
                            viol("monotone", step, "leaked interference power rose from %.12g to %.12g at iteration %d of %d" % (
                                costs[i - 1], costs[i], i + 1, len(costs)), rel="monotone", repeated_zero_eigenvalue=bool(degen))
                            break
                    if costs:
                        bump(res["probes"], "iterations_monitored", len(costs))
                elif o == "set_P_bad":
                    try:
                        solver.P = np.array(op["P"], dtype=float) if isinstance(op["P"], list) else op["P"]
                        viol("power", step, "the inadmissible power %r was accepted" % (op["P"],), rel="accepted")
                        break
                    except ValueError:
                        bump(res["faults"], "rejected-setter")
                    log.add(o, op["P"])
                    # falls through to check_relations: everything must still hold for the power set last
                elif o == "rerandomize":
                    if plan["init"] == "fix":
                        continue
                    ch.set_channel_seed(op["seed"])
                    ch.randomize(np.array(Nr), np.array(Nt), K)
                    tw = m.get("twin_solver")
                    if tw is not None and op.get("twin_first"):
                        # a second solver of the same class lives on the same channel object and happens to solve first
                        try:
                            tw.solve(np.array(Ns), None)
                        except Exception:   # noqa: BLE001
                            pass
                        bump(res["probes"], "twin_solver_solved_first_after_a_channel_change")
                    solver.solve(np.array(Ns), py_P(op["P"]))
                    m["handed_P"] = None
                    set_model_P(op["P"])
                    m["F_def"] = m["W_def"] = True
                    m["aligned"] = True
                    m["F_from_solve"] = True
                    m["cost_ok"] = False
                    cur["Ns"] = [int(x) for x in solver.Ns]
                    m["last_setter"] = "solve"
                    solves += 1
                elif o == "other_solver":
                    if op["kind"] in ("mmse", "maxsinr") and cur["noise"] is None:
                        continue
                    if m.get("twin_solver") is None and op["seed"] % 2 == 0:
                        # a twin: same class as the solver under test, same channel object, kept alive and solved now
                        tw = SOLVERS[kind](ch)
                        seed_all_rs(tw, op["seed"] % (1 << 31))
                        if kind != "closed":
                            tw.max_iterations = 2
                        try:
                            tw.solve(np.array(Ns), None)
                            m["twin_solver"] = tw
                        except Exception:   # noqa: BLE001
                            pass
                    s2 = SOLVERS[op["kind"]](ch)
                    seed_all_rs(s2, op["seed"] % (1 << 31))
                    s2.max_iterations = 2
                    try:
                        s2.solve(np.array(Ns), py_P(op["P"]))
                    except Exception:       # noqa: BLE001  (the other solver is not under test here)
                        pass
                    bump(res["probes"], "another_solver_on_the_same_channel")
                    log.add(o, op["kind"])
                    # falls through to check_relations on the solver under test
                elif o == "set_max_iter":
                    solver.max_iterations = int(op["v"])
                    log.add(o, op["v"])
                    continue
                elif o == "stream_search":
                    if cur["noise"] is None:
                        continue               # the drivers rank solutions by sum capacity, which needs a noise variance
                    drv = ALG.GreedStreamIASolver(solver) if op["how"] == "greedy" else ALG.BruteForceStreamIASolver(solver)
                    # the stream configuration of the PLAN (the one the solver and its initialisation are defined on), not what an
                    # earlier search left behind: e.g. the closed-form initialisation needs equal stream counts
                    ns_max = [min(x, 2) for x in Ns] if op["how"] == "brute" else list(Ns)
                    m["handed_P"] = None
                    drv.solve(np.array(ns_max), py_P(op["P"]))
                    solver.initialize_with = plan["init"]       # the drivers leave 'fix' / 'svd' behind; the caller sets its own mode again
                    set_model_P(op["P"])
                    m["F_def"] = m["W_def"] = True
                    m["aligned"] = True
                    m["F_from_solve"] = True
                    m["cost_ok"] = False
                    got_ns = [int(x) for x in solver.Ns]
                    if got_ns != cur["Ns"]:
                        bump(res["probes"], "stream_search_reduced_streams")
                    cur["Ns"] = got_ns
                    m["last_setter"] = "stream_search_" + op["how"]
                    solves += 1
                    bump(res["probes"], "stream_search_" + op["how"])
                elif o == "randomizeF":
                    pp = py_P(op["P"])
                    m["handed_P"] = pp if isinstance(pp, np.ndarray) else None
                    solver.randomizeF(np.array(cur["Ns"]), pp)
                    set_model_P(op["P"])
                    m["F_def"] = True
                    m["aligned"] = False
                    m["last_setter"] = "randomizeF"
                    m["cost_ok"] = False
                    m["F_from_solve"] = False
                elif o == "set_precoders":
                    rs = np.random.RandomState(op["seed"])
                    Fs = []
                    for k in range(K):
                        A = cmat(rs, Nt[k], cur["Ns"][k])
                        Fs.append(A / np.linalg.norm(A, "fro"))
                    newP = op.get("P")
                    if newP is not None:
                        set_model_P(newP)
                    full = [Fs[k] * np.sqrt(m["P"][k]) for k in range(K)]
                    kw = {}
                    # documented: "np.ndarray | list[np.ndarray]"; every third call hands plain lists
                    wrap_ = list if op["seed"] % 3 == 0 else as_obj_array
                    if wrap_ is list:
                        bump(res["probes"], "precoders_given_as_lists")
                    elif op["seed"] % 3 == 1 and len(set(Nt)) == 1 and len(set(cur["Ns"])) == 1:
                        wrap_ = np.array               # equal shapes: "a numpy array where each element is the precoder of one user" as ONE numeric 3-D array
                        bump(res["probes"], "precoders_given_as_one_3d_array")
                    if op["how"] in ("F", "both"):
                        kw["F"] = wrap_(Fs)
                    if op["how"] in ("full_F", "both"):
                        kw["full_F"] = wrap_(full)
                    if op["how"] == "F" and op["seed"] % 4 == 3 and getattr(solver, "_F", None) is not None and isinstance(solver.F, np.ndarray) \
                            and solver.F.dtype == object and len(solver.F) == K:
                        # the caller edits the array the solver handed out (solver.F) element by element and hands the SAME array back
                        arr_same = solver.F
                        for k_ in range(K):
                            arr_same[k_] = Fs[k_]
                        kw["F"] = arr_same
                        bump(res["probes"], "solver_F_edited_in_place_and_handed_back")
                    if newP is not None:
                        # the power in the form the plan has it (scalar, list) half of the time, as an array otherwise
                        kw["P"] = (list(newP) if isinstance(newP, list) else newP) if op["seed"] % 2 == 0 else np.array(m["P"])
                        m["handed_P"] = kw["P"] if isinstance(kw["P"], np.ndarray) else None
                    solver.set_precoders(**kw)
                    m["F_def"] = True
                    m["aligned"] = False
                    m["last_setter"] = "set_precoders"
                    m["cost_ok"] = False
                    m["F_from_solve"] = False
                elif o == "set_receive_filters":
                    rs = np.random.RandomState(op["seed"])
                    Ws = [cmat(rs, Nr[k], cur["Ns"][k]) for k in range(K)]
                    wrap_ = list if op["seed"] % 3 == 0 else as_obj_array
                    if op["how"] == "W":
                        solver.set_receive_filters(W=wrap_(Ws))
                    else:
                        solver.set_receive_filters(W_H=wrap_([w.conj().T for w in Ws]))
                    m["W_def"] = True
                    m["aligned"] = False
                    m["last_setter"] = "set_receive_filters"
                    m["cost_ok"] = False
                elif o == "scribble_P":
                    h = m.get("handed_P")
                    if h is None:
                        continue
                    if np.issubdtype(h.dtype, np.integer):
                        h *= 2                   # an integer buffer can only be scaled by whole numbers
                    else:
                        h *= op["factor"]          # e.g. a power sweep that reuses its buffer; nothing is called on the solver
                    bump(res["probes"], "caller_edited_the_power_array_it_had_passed")
                    # either the solver kept its own copy (nothing changes) or it follows the caller's buffer coherently
                    check_relations(step, "the caller edited the P array it had passed")
                    if res["status"] != "ok":
                        firstv = res["violations"].pop()
                        res["status"] = "ok"
                        keepP = m["P"]
                        m["P"] = np.array(h, dtype=float)
                        check_relations(step, "the caller edited the P array it had passed")
                        if res["status"] != "ok":
                            res["violations"][-1]["detail"] = ("after the caller edited in place the power array it had passed, the solver is neither unchanged nor "
                                                               "coherently updated (%s | %s)" % (firstv["detail"][:140], res["violations"][-1]["detail"][:140]))
                            res["violations"][-1]["signature"]["rel"] = "aliasing"
                            m["P"] = keepP
                    log.add(o, op["factor"])
                    continue
                elif o == "set_P":
                    oldP = np.array(m["P"])
                    c0 = None
                    if (kind in ("altmin", "minleak") and m["F_def"] and m["W_def"] and m.get("cost_ok") and len(set(oldP)) == 1
                            and not cur["noise"]):       # with noise the reported cost also contains the (power independent) noise term
                        c0 = float(np.real(solver.get_cost()))
                    pp = py_P(op["P"])
                    m["handed_P"] = pp if isinstance(pp, np.ndarray) else None
                    solver.P = pp
                    set_model_P(op["P"])
                    if c0 is not None and len(set(m["P"])) == 1 and c0 > 1e-12:
                        # the leaked interference power is linear in a common transmit power
                        c1 = float(np.real(solver.get_cost()))
                        want = c0 * m["P"][0] / oldP[0]
                        bump(res["probes"], "cost_read_after_power_change")
                        if abs(c1 - want) > 1e-6 * abs(want) + 1e-9:      # 1e-9: numerical floor of a converged (zero) leakage
                            viol("cost", step, "get_cost() = %.9g after the common power went from %g to %g; the leaked interference power was %.9g and is linear in the power (expected %.9g)" % (
                                c1, oldP[0], m["P"][0], c0, want), rel="cost_scaling")
                    m["last_setter"] = "P"
                    m["F_from_solve"] = False
                elif o == "rechannel":
                    Nr, Nt = list(op["Nr"]), list(op["Nt"])
                    ch.set_channel_seed(op["seed"])
                    ch.randomize(np.array(Nr), np.array(Nt), K)
                    m["F_def"] = m["W_def"] = False          # the old solution belongs to the old channel
                    m["aligned"] = False
                    m["cost_ok"] = False
                    bump(res["probes"], "channel_redimensioned_between_solves")
                elif o == "noise":
                    ch.noise_var = op["v"]
                    cur["noise"] = op["v"]
                    m["cost_ok"] = False
                elif o == "solve_bad":
                    # a solve that is refused LATE (more streams than antennas): whatever the solver keeps afterwards, its
                    # power-scaled precoders must belong to the power it reports; then the caller clears the solver
                    pnew = py_P(op["P"])
                    oldP = np.array(m["P"])
                    refused = False
                    try:
                        solver.solve(np.array([max(Nr[k_], Nt[k_]) + 1 for k_ in range(K)]), pnew)
                    except Exception:       # noqa: BLE001  (which exception is the library's business)
                        refused = True
                        bump(res["faults"], "rejected-setter")
                    if refused and getattr(solver, "_F", None) is not None:
                        Pn = np.array(solver.P, dtype=float)
                        set_model_P(op["P"])
                        if np.shape(Pn) != (K,) or not (np.allclose(Pn, oldP, rtol=1e-12, atol=0) or np.allclose(Pn, m["P"], rtol=1e-12, atol=0)):
                            viol("power", step, "after a refused solve solver.P is %s: neither the old power %s nor the one passed %s" % (Pn, oldP, m["P"]), rel="P")
                            break
                        try:
                            fF_ = solver.full_F
                            usable = fF_ is not None and len(fF_) == K and all(isinstance(x, np.ndarray) and x.ndim == 2 and x.dtype != object for x in fF_)
                        except Exception:   # noqa: BLE001
                            usable = False
                        if not usable:
                            bump(res["probes"], "refused_solve_left_no_usable_precoders")
                        for k_ in range(K if usable else 0):
                            pw_ = np.linalg.norm(fF_[k_], "fro") ** 2
                            if pw_ > Pn[k_] * (1 + 1e-6) + 1e-12:
                                viol("power", step, "after a refused solve |full_F[%d]|^2 = %.9g exceeds the power the solver reports, %.9g" % (k_, pw_, Pn[k_]), rel="exceeds_after_refused_solve")
                                break
                        if res["status"] != "ok":
                            break
                    solver.clear()
                    cur["Ns"] = list(Ns)
                    set_model_P(None)
                    m["F_def"] = m["W_def"] = False
                    m["aligned"] = False
                    m["last_setter"] = "clear"
                    m["cost_ok"] = False
                    m["F_from_solve"] = False
                    m["handed_P"] = None
                    if kind != "closed":
                        solver.max_iterations = plan["max_iterations"]
                        solver.initialize_with = plan["init"]
                    log.add(o, refused)
                    continue
                elif o == "clear":
                    solver.clear()
                    cur["Ns"] = list(Ns)
                    set_model_P(None)
                    m["F_def"] = m["W_def"] = False
                    m["aligned"] = False
                    m["last_setter"] = "clear"
                    m["cost_ok"] = False
                    m["F_from_solve"] = False
                    if kind != "closed":
                        solver.max_iterations = plan["max_iterations"]
                        solver.initialize_with = plan["init"]
                elif o == "read":
                    for what in op["what"]:
                        if what == "cost":
                            if kind in ("altmin", "minleak") and m["F_def"] and m["W_def"] and m["last_setter"] in ("solve", "P"):
                                c = solver.get_cost()
                                if not (np.real(c) >= -1e-9):
                                    viol("cost", step, "get_cost() = %r is negative" % (c,), rel="cost")
                                elif kind == "minleak" and not cur["noise"]:
                                    fF, Wc = solver.full_F, solver.W
                                    ref = 0.0
                                    for k_ in range(K):
                                        Q = np.zeros((Nr[k_], Nr[k_]), dtype=complex)
                                        for l_ in range(K):
                                            if l_ != k_:
                                                A = ch.get_Hkl(k_, l_) @ fF[l_]
                                                Q = Q + A @ A.conj().T
                                        ref += float(np.sum(np.abs(np.diag(Wc[k_].conj().T @ Q @ Wc[k_]))))
                                    if abs(float(np.real(c)) - ref) > 1e-8 * max(1.0, ref) + 1e-9:
                                        viol("cost", step, "get_cost() = %.9g but the interference leaked through the current filters is %.9g" % (float(np.real(c)), ref), rel="cost_value")
                        elif what in ("F", "full_F", "Ns", "P"):
                            if m["F_def"] or what == "P":
                                getattr(solver, what)
                        elif m["W_def"] and (what in ("W", "W_H") or m["F_def"]):
                            getattr(solver, what)
                else:
                    raise HarnessError("unknown op %r" % (op,))
                if o != "read":
                    if o != "solve" and solves:
                        setters_after_solve += 1
                    res["state_keys"].append("%s|%s|%s|derived=%s|prev=%s" % (kind, plan["init"] if o == "solve" else "-", o, pre, m.get("prev_op")))
                    if pre[0] == "1" and o in ("set_P",):
                        bump(res["probes"], "P_changed_after_full_F_cached")
                    if pre[1] == "1" and o in ("set_P", "set_precoders", "randomizeF"):
                        bump(res["probes"], "precoder_or_power_changed_after_full_W_H_cached")
                    m["prev_op"] = o
                if res["status"] == "ok":
                    check_relations(step, o if o != "read" else (m["last_setter"] or "read"))
        except HarnessError:
            raise
        except Exception as e:
            viol("completes", step, "%s raised %s: %s" % (o, type(e).__name__, str(e)[:240]), op=o, exc=type(e).__name__,
                 uses_closed_form=bool(kind == "closed" or plan["init"] == "closed_form"), noise_free=not cur["noise"],
                 what=("lagrange_multiplier_search" if "Lagrange multiplier" in str(e) else None))
            break
        log.add(o, {k: v for k, v in op.items() if k != "op"})
        if m["F_def"] and res["status"] == "ok":
            try:
                log.add("F", [np.round(f, 9) for f in solver.F])
            except Exception:
                pass
    res["digest"] = log.digest()
    res["steps"] = log.seq
    res["nontrivial"] = solves >= 1 and len(plan["ops"]) >= 2
    return res


def shrink(plan):
    P = lambda: copy.deepcopy(plan)   # noqa: E731
    for cand in ddmin_candidates(plan["ops"], 1):
        c = P()
        c["ops"] = cand
        yield c
    if plan["max_iterations"] > 1:
        for mi in (1, 2, plan["max_iterations"] // 2):
            if mi < plan["max_iterations"]:
                c = P()
                c["max_iterations"] = mi
                yield c
    if plan["init"] not in ("random",) and plan["solver"] != "closed":
        c = P()
        c["init"] = "random"
        yield c
    if plan["noise_var"] and plan["solver"] not in ("mmse", "maxsinr"):
        c = P()
        c["noise_var"] = None
        yield c
    if plan["solver"] != "closed":
        if plan["K"] > 2:
            c = P()
            c["K"] = plan["K"] - 1
            for f in ("Nr", "Nt", "Ns"):
                c[f] = plan[f][:-1]
            for op in c["ops"]:
                if isinstance(op.get("P"), list):
                    op["P"] = op["P"][:-1]
            if c["init"] == "closed_form":
                c["init"] = "random"
            yield c
        if any(s > 1 for s in plan["Ns"]):
            c = P()
            c["Ns"] = [1] * plan["K"]
            if c["init"] == "closed_form":
                c["init"] = "random"
            yield c
        if len(set(plan["Nr"] + plan["Nt"])) > 1:
            n = max(plan["Nr"] + plan["Nt"])
            c = P()
            c["Nr"] = [n] * plan["K"]
            c["Nt"] = [n] * plan["K"]
            yield c
    for i, op in enumerate(plan["ops"]):
        if op.get("P") is not None and op["op"] != "set_P":
            c = P()
            c["ops"][i]["P"] = None
            yield c
        if isinstance(op.get("P"), list):
            c = P()
            c["ops"][i]["P"] = op["P"][0] if op["P"][0] != 1.0 else 2.0
            yield c
        if op.get("monitor"):
            c = P()
            c["ops"][i]["monitor"] = False
            yield c
