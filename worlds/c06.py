"""C06: combining simulation results is independent of how repetitions were
grouped.  The simulator plays the scheduler of a parallel/ resumed run: which
accumulator receives each observation and in which tree the accumulators are
merged is the schedule; the reference model is the plain list of observations
each object represents, and the expected statistics are those of accumulating
that list one by one into a single fresh result object."""
import copy
import math

import numpy as np

from simkit.core import (EventLog, HarnessError, add_violation, bump, ddmin_candidates, new_result, op_time_limit, use_repo)

use_repo()
from pyphysim.simulations.parameters import SimulationParameters   # noqa: E402
from pyphysim.simulations.results import Result, SimulationResults, combine_simulation_results  # noqa: E402

TYPES = {"SUM": Result.SUMTYPE, "RATIO": Result.RATIOTYPE, "MISC": Result.MISCTYPE, "CHOICE": Result.CHOICETYPE,
         "CHOICE3": Result.CHOICETYPE}           # a second choice result with another number of choices (sets may hold both)
CHOICE_NUM = 4
CHOICE_NUMS = {"CHOICE": 4, "CHOICE3": 3}


def is_choice(t):
    return t in CHOICE_NUMS


def warm_up():
    pass


# --------------------------------------------------------------------------
# observation generation
# --------------------------------------------------------------------------
def gen_obs(rng, tname, mode):
    if tname == "SUM":
        return [rng.randint(0, 65535) if mode == "exact" else rng.uniform(-1e3, 1e3) * 10 ** rng.randint(-3, 3), None]
    if tname == "RATIO":
        if mode == "exact":
            return [rng.randint(0, 65535), rng.choice([1, 2, 4, 8])]
        return [rng.uniform(0, 1e3), rng.uniform(0.5, 1e4)]
    if tname == "MISC":
        if rng.random() < 0.3:
            return [{"__nd__": [rng.randint(0, 9), rng.randint(0, 9), rng.randint(0, 9)]}, None]      # an array-valued observation (same shape every time)
        return [rng.choice(["a", "b", 3, 4.5, "z%d" % rng.randint(0, 99)]), None]
    return [rng.randrange(CHOICE_NUMS[tname]), None]


def make_result(tname, accumulate, first=None, via_create=False):
    code = TYPES[tname]
    if first is not None and via_create:
        if is_choice(tname):
            return Result.create("r", code, first[0], CHOICE_NUMS[tname], accumulate_values=accumulate)
        if tname == "RATIO":
            return Result.create("r", code, first[0], first[1], accumulate_values=accumulate)
        return Result.create("r", code, obs_val(first[0]), accumulate_values=accumulate)
    r = Result("r", code, accumulate_values=accumulate, choice_num=CHOICE_NUMS[tname] if is_choice(tname) else None)
    if first is not None:
        do_update(r, tname, first)
    return r


def obs_val(v):
    return np.array(v["__nd__"]) if isinstance(v, dict) and "__nd__" in v else v


def do_update(r, tname, obs):
    if tname == "RATIO":
        v, t = obs[0], obs[1]
        if isinstance(v, int) and isinstance(t, int) and (v + t) % 3 == 0:
            v, t = np.int64(v), np.int32(t)                 # counts straight out of numpy
        r.update(v, t)
    else:
        v = obs_val(obs[0])
        if isinstance(v, int) and not isinstance(v, bool) and v % 3 == 0 and tname != "MISC":
            v = np.int64(v)
        elif isinstance(v, float) and tname == "SUM" and int(v * 1000) % 4 == 0:
            v = np.float64(v)
        r.update(v)


def stats_of(r, tname):
    """Public observations of a result object."""
    n = r.num_updates
    if is_choice(tname):
        val = [int(x) for x in r._value]
    else:
        val = r._value
        if isinstance(val, np.ndarray):
            val = {"__nd__": val.tolist()}
    out = {"value": val, "total": r._total, "n": n}
    if n > 0 and tname != "MISC":
        out["result"] = r.get_result().tolist() if is_choice(tname) else r.get_result()
        out["mean"] = r.get_result_mean()
        out["var"] = r.get_result_var()
    return out


def snapshot(r):
    v = r._value
    return (r.name, r._update_type_code, v.tolist() if isinstance(v, np.ndarray) else copy.deepcopy(v), copy.deepcopy(r._total),
            r._result_sum, r._result_squared_sum, r.num_updates, list(r._value_list), list(r._total_list), r._accumulate_values_bool)


def expected_stats(obs_list, tname, accumulate):
    """Accumulate the represented observations one by one into ONE fresh object
    (this is the left-hand side of the property) and read its statistics."""
    ref = make_result(tname, accumulate)
    for o in obs_list:
        do_update(ref, tname, o)
    return stats_of(ref, tname), ref


def close(a, b, mode, scale=None):
    if isinstance(a, (list, tuple)) or isinstance(b, (list, tuple)):
        if len(a) != len(b):
            return False
        return all(close(x, y, mode, scale) for x, y in zip(a, b))
    if isinstance(a, str) or isinstance(b, str):
        return a == b
    if mode == "exact":
        return a == b
    if isinstance(a, float) and isinstance(b, float) and math.isnan(a) and math.isnan(b):
        return True
    s = scale if scale is not None else max(abs(a), abs(b))
    return abs(a - b) <= 1e-9 * s + 1e-300


def compare_stats(got, want, tname, mode, obs_list):
    """Returns a description of the first disagreement, or None."""
    if tname == "MISC":
        if obs_list and got["value"] != obs_list[-1][0]:
            return "misc value %r is not the last observation %r" % (got["value"], obs_list[-1][0])
        return None
    if got["n"] != want["n"]:
        return "update count %s, accumulating the same observations one by one gives %s" % (got["n"], want["n"])
    for k in ("value", "total", "result", "mean"):
        if k in want and not close(got.get(k), want[k], mode):
            return "%s %r, accumulating the same observations one by one gives %r" % (k, got.get(k), want[k])
    if "var" in want:
        if tname == "RATIO":
            sc = max((o[0] / o[1]) ** 2 for o in obs_list)
        elif tname == "SUM":
            sc = max(float(o[0]) ** 2 for o in obs_list)
        else:
            sc = 1.0
        if not close(got.get("var"), want["var"], mode, scale=max(sc, 1e-300)):
            return "variance %r, accumulating the same observations one by one gives %r" % (got.get("var"), want["var"])
    return None


# --------------------------------------------------------------------------
# plans
# --------------------------------------------------------------------------
def gen_plan(rng, tier, idx, opts):
    level = rng.choice(["result", "result", "result", "set", "set", "combine"])
    mode = rng.choice(["exact", "exact", "float"])
    if level == "result":
        tname = rng.choice(["SUM", "RATIO", "MISC", "CHOICE"])
        accumulate = rng.random() < 0.5
        nobs = rng.randint(1, 40)
        ops = []
        nseg = 0          # live ordered segments are tracked by the executor; here: op kinds only
        live = []         # list of accumulator ids in stream order
        next_acc = 0
        retired = []
        for _ in range(nobs):
            r = rng.random()
            if not live or (r < 0.3 and next_acc < 8):
                ops.append({"op": "new", "acc": next_acc, "obs": gen_obs(rng, tname, mode), "create": rng.random() < 0.5})
                live.append(next_acc)
                next_acc += 1
            else:
                ops.append({"op": "update", "acc": live[-1], "obs": gen_obs(rng, tname, mode)})
            while len(live) >= 2 and rng.random() < 0.35:
                i = rng.randrange(len(live) - 1)
                ops.append({"op": "merge", "dst": live[i], "src": live[i + 1]})
                retired.append(live.pop(i + 1))
            if tname != "MISC" and len(live) >= 3 and rng.random() < 0.08:
                i, j = rng.sample(range(len(live)), 2)       # non-adjacent merge (sums commute)
                ops.append({"op": "merge", "dst": live[i], "src": live[j]})
                retired.append(live.pop(j))
            if tname != "MISC" and retired and live and rng.random() < 0.05:
                # an operand that was merged before is merged AGAIN (it must not have been changed by the first merge,
                # so this is the same as merging an equal copy: its observations are counted once more)
                ops.append({"op": "merge", "dst": rng.choice(live), "src": rng.choice(retired), "again": True})
            if tname != "MISC" and rng.random() < 0.05 and next_acc < 8:
                ops.append({"op": "new_empty", "acc": next_acc})   # an accumulator that never saw anything
                if live and rng.random() < 0.7:
                    ops.append({"op": "merge", "dst": live[-1], "src": next_acc})
                    retired.append(next_acc)
                else:
                    live.append(next_acc)
                next_acc += 1
        while len(live) >= 2 and rng.random() < 0.8:
            i = rng.randrange(len(live) - 1)
            ops.append({"op": "merge", "dst": live[i], "src": live[i + 1]})
            live.pop(i + 1)
        out = {"world": "results", "level": "result", "mode": mode, "type": tname, "accumulate": accumulate, "ops": ops}
        form = rng.choice(["bool", "bool", "bool", "np_bool", "int"])
        if form != "bool":
            out["acc_form"] = form
        return out
    if level == "set":
        names = rng.sample(["SUM", "RATIO", "MISC", "CHOICE", "CHOICE3"], rng.randint(1, 4))
        ops = []
        nsets = 0
        live = []
        holders = []      # sets built by append_all (lists of several results per name)
        for _ in range(rng.randint(2, 25)):
            r = rng.random()
            if r < 0.45 or not live:
                ops.append({"op": "rep", "set": nsets, "obs": {nm: gen_obs(rng, nm, mode) for nm in names}})
                if len(names) > 1 and rng.random() < 0.4:
                    ops[-1]["order"] = rng.sample(names, len(names))      # the same names, added in another order
                if rng.random() < 0.25:
                    # the counter the runner adds to a repetition ('num_skipped_reps'): merged when present, created when the
                    # accumulator lacks it; it may sit anywhere among the names
                    ops[-1]["skipped"] = {"v": rng.randint(0, 3), "pos": rng.randint(0, len(names))}
                live.append(nsets)
                nsets += 1
            elif r < 0.55:
                ops.append({"op": "empty", "set": nsets})
                live.append(nsets)
                nsets += 1
            elif r < 0.9 and len(live) >= 2:
                i = rng.randrange(len(live) - 1)
                ops.append({"op": "merge_all", "dst": live[i], "src": live[i + 1]})
                live.pop(i + 1)
            elif len(live) >= 1:
                if holders and rng.random() < 0.7:
                    h = rng.choice(holders)
                else:
                    h = nsets
                    ops.append({"op": "empty", "set": nsets, "holder": True})
                    holders.append(h)
                    nsets += 1
                i = rng.randrange(len(live))
                ops.append({"op": "append_all", "dst": h, "src": live[i]})
                if rng.random() < 0.5 and len(live) >= 2:
                    j = rng.randrange(len(live))
                    if j != i:
                        ops.append({"op": "merge_all", "dst": h, "src": live[j]})
        out = {"world": "results", "level": "set", "mode": mode, "names": names, "ops": ops, "accumulate": rng.random() < 0.4}
        if rng.random() < 0.5:
            # what users call their results: short names, names that contain or are contained in other names
            pool = rng.sample(["ber", "ser", "r", "p", "s", "e", "n", "m", "num", "rep", "reps", "skipped", "num_skipped", "lala", "x", "ids", "errors"], len(names))
            out["alias"] = dict(zip(names, pool))
        return out
    # combine
    names = rng.sample(["SUM", "RATIO", "MISC", "CHOICE", "CHOICE3"], rng.randint(1, 4))
    nunp = rng.choice([1, 1, 2])
    pnames = ["p", "q"][:nunp]
    grids = []
    for _ in range(2):
        g = {}
        for pn in pnames:
            g[pn] = rng.sample(range(0, 8), rng.randint(1, 4))
            if rng.random() < 0.5:
                g[pn].sort()                      # sweeps are often, but not always, given in ascending order
        grids.append(g)
    mixed_types = rng.random() < 0.2
    if mixed_types:
        # the first sweep used whole numbers (an integer grid), the second one fills in between (floats): the union holds both
        for pn in pnames:
            grids[1][pn] = [v + rng.choice([0.5, 0.25, 0.0]) for v in grids[1][pn]]
    sets = []
    for g in grids:
        nv = 1
        for pn in pnames:
            nv *= len(g[pn])
        per_v = []
        for v in range(nv):
            per_v.append({nm: [gen_obs(rng, nm, mode) for _ in range(rng.randint(1, 5))] for nm in names})
        sets.append({"grid": g, "obs": per_v})
    return {"world": "results", "level": "combine", "mode": mode, "names": names, "fixed": {"nt": rng.choice([2, "x"])}, "params_reused": rng.random() < 0.25, "mixed_types": mixed_types,
            "array": rng.random() < 0.5, "sets": sets,
            "scale": rng.choice([None, None, None, 1e-9, 0.5])}      # grid values are scale*k: distinct floats, possibly tiny


# --------------------------------------------------------------------------
# execution
# --------------------------------------------------------------------------
def execute(plan):
    res = new_result()
    log = EventLog()
    pid = plan.get("property", "C06")
    level = plan["level"]
    mode = plan["mode"]
    if level == "result":
        _exec_result(plan, res, log, pid, mode)
    elif level == "set":
        _exec_set(plan, res, log, pid, mode)
    else:
        _exec_combine(plan, res, log, pid, mode)
    res["digest"] = log.digest()
    res["steps"] = log.seq
    return res


def _tree_shape(lists):
    return "|".join(str(min(len(l), 9)) for l in lists[:6])


def _exec_result(plan, res, log, pid, mode):
    tname, acc_flag = plan["type"], plan["accumulate"]
    form = plan.get("acc_form", "bool")
    if form == "np_bool":
        acc_flag = np.bool_(acc_flag)          # e.g. accumulate_values=(n < limit) computed with numpy
    elif form == "int":
        acc_flag = int(acc_flag)
    if form != "bool":
        bump(res["probes"], "accumulate_flag_given_as_" + form)
    objs, model = {}, {}
    merges = 0
    empty_dst = False
    for step, op in enumerate(plan["ops"]):
        kind = op["op"]
        before = {a: snapshot(o) for a, o in objs.items()}
        dst = None
        try:
            if kind == "new":
                objs[op["acc"]] = make_result(tname, acc_flag, op["obs"], op.get("create", False))
                model[op["acc"]] = [op["obs"]]
                dst = op["acc"]
            elif kind == "new_empty":
                objs[op["acc"]] = make_result(tname, acc_flag)
                model[op["acc"]] = []
                dst = op["acc"]
            elif kind == "update":
                if op["acc"] not in objs:
                    continue
                do_update(objs[op["acc"]], tname, op["obs"])
                model[op["acc"]].append(op["obs"])
                dst = op["acc"]
            elif kind == "roundtrip":
                if op["acc"] not in objs:
                    continue
                objs[op["acc"]] = Result.from_dict(copy.deepcopy(objs[op["acc"]].to_dict()))
                dst = op["acc"]
                bump(res["probes"], "result_recreated_from_its_dictionary_form")
            elif kind == "merge":
                if op["dst"] not in objs or op["src"] not in objs or op["dst"] == op["src"]:
                    continue
                if tname == "MISC" and not model[op["src"]]:
                    continue            # merging an empty misc operand is outside the quantifier
                if not model[op["dst"]]:
                    empty_dst = True
                objs[op["dst"]].merge(objs[op["src"]])
                model[op["dst"]] = model[op["dst"]] + model[op["src"]]
                if op.get("again"):
                    bump(res["probes"], "operand_merged_a_second_time")
                dst = op["dst"]
                merges += 1
            else:
                raise HarnessError("unknown op %r" % (op,))
        except HarnessError:
            raise
        except Exception as e:
            add_violation(res, pid + ".op_raises", step, "%s on a %s result raised %s: %s" % (kind, tname, type(e).__name__, e),
                          {"type": tname, "op": kind, "exc": type(e).__name__})
            break
        log.add(kind, op.get("acc", op.get("dst")), op.get("src"), op.get("obs"))
        # operands and bystanders untouched
        for a, snap in before.items():
            if a != dst and snapshot(objs[a]) != snap:
                add_violation(res, pid + ".operand_mutated", step, "%s(dst=%s) changed accumulator %s: %s -> %s" % (
                    kind, dst, a, snap, snapshot(objs[a])), {"type": tname, "op": kind, "level": "result"})
                break
        if res["status"] != "ok":
            break
        # every live object = one-by-one accumulation of the list it represents
        for a, o in objs.items():
            if not model[a]:
                continue
            want, ref_ = expected_stats(model[a], tname, acc_flag)
            got = stats_of(o, tname)
            why = compare_stats(got, want, tname, mode, model[a])
            if why is None and acc_flag is True and tname != "MISC":
                if list(o._value_list) != [x[0] for x in model[a]] or (tname == "RATIO" and list(o._total_list) != [x[1] for x in model[a]]):
                    why = "accumulated value list %s is not the list of observations %s" % (o._value_list, [x[0] for x in model[a]])
            if why is None and tname != "MISC" and (list(o._value_list) != list(ref_._value_list) or list(o._total_list) != list(ref_._total_list)):
                # whatever the library makes of this form of the flag, splitting and merging must keep what ONE object keeps
                why = "accumulated lists %s / %s differ from those of one object accumulating the same observations %s / %s (flag %r)" % (
                    list(o._value_list), list(o._total_list), list(ref_._value_list), list(ref_._total_list), acc_flag)
            if why:
                add_violation(res, pid + ".grouping", step, "accumulator %s (%s, %d observations, after %s): %s" % (
                    a, tname, len(model[a]), kind, why), {"type": tname, "op": kind, "level": "result"})
                break
        if res["status"] != "ok":
            break
        log.add("state", [(a, stats_of(o, tname)) for a, o in sorted(objs.items())])
    res["nontrivial"] = merges >= 1
    res["state_keys"].append("result|%s|acc=%s|%s|tree=%s|emptydst=%s" % (tname, acc_flag, mode, _tree_shape([model[a] for a in sorted(model)]), empty_dst))
    if empty_dst:
        bump(res["probes"], "merge_into_empty_result")


def _set_snapshot(s):
    return {n: [snapshot(r) for r in lst] for n, lst in s._results.items()}


def _exec_set(plan, res, log, pid, mode):
    names = plan["names"]
    alias = plan.get("alias") or {}

    def rn(nm_):
        """The NAME a result of this type carries in the sets (users call their results 'ber', 'r', 'num', ...)."""
        return alias.get(nm_, nm_)
    sets, model = {}, {}       # model: set id -> {name: [obs_list per slot]}
    skipm = {}                 # set id -> value of the runner's 'num_skipped_reps' counter (None: absent)
    donated = set()
    merges = 0
    for step, op in enumerate(plan["ops"]):
        kind = op["op"]
        before = {a: _set_snapshot(o) for a, o in sets.items() if a not in donated}
        dst = None
        try:
            if kind == "rep":
                s = SimulationResults()
                acc_ = bool(plan.get("accumulate"))
                sk = op.get("skipped")
                for pos_, nm in enumerate(list(op.get("order") or names) + [None]):
                    if sk is not None and pos_ == sk["pos"]:
                        s.add_new_result("num_skipped_reps", Result.SUMTYPE, sk["v"])
                    if nm is None:
                        break
                    o = op["obs"][nm]
                    if is_choice(nm):
                        s.add_result(Result.create(rn(nm), TYPES[nm], o[0], CHOICE_NUMS[nm], accumulate_values=acc_))
                    elif acc_:
                        s.add_result(Result.create(rn(nm), TYPES[nm], obs_val(o[0]), o[1] if nm == "RATIO" else 0, accumulate_values=True))
                    elif nm == "RATIO":
                        s.add_new_result(rn(nm), TYPES[nm], o[0], o[1])
                    else:
                        s.add_new_result(rn(nm), TYPES[nm], obs_val(o[0]))
                sets[op["set"]] = s
                model[op["set"]] = {nm: [[op["obs"][nm]]] for nm in names}
                skipm[op["set"]] = None if sk is None else sk["v"]
                dst = op["set"]
            elif kind == "empty":
                sets[op["set"]] = SimulationResults()
                model[op["set"]] = {}
                skipm[op["set"]] = None
                dst = op["set"]
            elif kind == "merge_all":
                d, s_ = op["dst"], op["src"]
                if d not in sets or s_ not in sets or d == s_ or not model[s_] or s_ in donated or d in donated:
                    continue
                if any(len(v) != 1 for v in model[s_].values()):
                    continue          # documented: `other` holds one result per name
                if model[d] and set(model[d]) != set(model[s_]):
                    continue
                if not model[d]:
                    bump(res["probes"], "merge_all_into_empty_set")
                with op_time_limit(3.0):
                    sets[d].merge_all_results(sets[s_])
                if skipm.get(s_) is not None:
                    skipm[d] = (skipm.get(d) or 0) + skipm[s_]
                    bump(res["probes"], "special_skip_counter_merged")
                if not model[d]:
                    model[d] = {nm: [list(model[s_][nm][0])] for nm in model[s_]}
                else:
                    for nm in model[d]:
                        model[d][nm][-1] = model[d][nm][-1] + model[s_][nm][0]
                dst = d
                merges += 1
            elif kind == "append_all":
                d, s_ = op["dst"], op["src"]
                if d not in sets or s_ not in sets or d == s_ or not model[s_] or s_ in donated or d in donated:
                    continue
                if model[d] and set(model[d]) != set(model[s_]):
                    continue
                if skipm.get(d) is not None or skipm.get(s_) is not None:
                    continue          # the runner's skip counter is only ever merged
                with op_time_limit(3.0):
                    sets[d].append_all_results(sets[s_])
                donated.add(s_)       # append shares the result objects by design; only MERGED-in operands are promised untouched
                for nm in model[s_]:
                    model[d].setdefault(nm, [])
                    model[d][nm].extend([list(x) for x in model[s_][nm]])
                dst = d
                merges += 1
            else:
                raise HarnessError("unknown op %r" % (op,))
        except HarnessError:
            raise
        except Exception as e:
            add_violation(res, pid + ".op_raises", step, "%s raised %s: %s" % (kind, type(e).__name__, e),
                          {"op": kind, "exc": type(e).__name__})
            break
        log.add(kind, op.get("set", op.get("dst")), op.get("src"), op.get("obs"))
        for a, snap in before.items():
            if a != dst and _set_snapshot(sets[a]) != snap:
                add_violation(res, pid + ".operand_mutated", step, "%s(dst=%s, src=%s) changed result set %s" % (kind, dst, op.get("src"), a),
                              {"op": kind, "level": "set"})
                break
        if res["status"] != "ok":
            break
        for a, s in sets.items():
            if a in donated:
                # append shares the result OBJECTS by design, but the donor keeps its own lists: what is appended to the
                # receiver later must not show up in the donor
                for nm, slots in model[a].items():
                    if len(s[rn(nm)]) != len(slots):
                        add_violation(res, pid + ".operand_mutated", step, "the set that donated its results through append_all_results now holds %d '%s' results instead of %d" % (
                            len(s[rn(nm)]), nm, len(slots)), {"op": kind, "level": "set", "type": "donor_list"})
                        break
                if res["status"] != "ok":
                    break
                continue
            has_sk = "num_skipped_reps" in s.get_result_names()
            if (skipm.get(a) is not None) != has_sk or (has_sk and s["num_skipped_reps"][-1]._value != skipm[a]):
                add_violation(res, pid + ".grouping", step, "set %s: skip counter %s, the merged repetitions give %s" % (
                    a, s["num_skipped_reps"][-1]._value if has_sk else "absent", skipm.get(a)), {"op": kind, "level": "set", "type": "skip_counter"})
                break
            for nm, slots in model[a].items():
                try:
                    lst = s[rn(nm)]
                except KeyError:
                    add_violation(res, pid + ".grouping", step, "set %s lost result %s" % (a, nm), {"op": kind, "level": "set"})
                    break
                if len(lst) != len(slots):
                    add_violation(res, pid + ".grouping", step, "set %s holds %d '%s' results, expected %d" % (a, len(lst), nm, len(slots)),
                                  {"op": kind, "level": "set"})
                    break
                for r, ol in zip(lst, slots):
                    acc_ = bool(plan.get("accumulate"))
                    want, _ = expected_stats(ol, nm, acc_)
                    why = compare_stats(stats_of(r, nm), want, nm, mode, ol)
                    if why is None and acc_ and nm != "MISC":
                        if list(r._value_list) != [x[0] for x in ol] or (nm == "RATIO" and list(r._total_list) != [x[1] for x in ol]):
                            why = "accumulated value list %s is not the list of observations %s" % (list(r._value_list), [x[0] for x in ol])
                    if why:
                        add_violation(res, pid + ".grouping", step, "set %s result %s after %s: %s" % (a, nm, kind, why),
                                      {"op": kind, "level": "set", "type": nm})
                        break
                if res["status"] != "ok":
                    break
            if res["status"] != "ok":
                break
        if res["status"] != "ok":
            break
        log.add("state", [(a, sorted((nm, [stats_of(r, nm) for r in s[rn(nm)]]) for nm in model[a])) for a, s in sorted(sets.items()) if a not in donated])
    res["nontrivial"] = merges >= 1
    res["state_keys"].append("set|%s|%s|ops=%s" % ("+".join(sorted(names)), mode, "".join(o["op"][0] for o in plan["ops"])[:8]))


def _exec_combine(plan, res, log, pid, mode):
    names = plan["names"]
    built = []
    for sp in plan["sets"]:
        params = SimulationParameters()
        for k, v in plan["fixed"].items():
            params.add(k, v)
        pn = sorted(sp["grid"])
        sc = plan.get("scale")
        for k in pn:
            vals = list(sp["grid"][k]) if sc is None else [v * sc for v in sp["grid"][k]]
            if plan.get("params_reused"):
                # the parameters object served an earlier sweep with another grid (and was queried) before the grid of THIS
                # sweep was assigned through item assignment
                decoy = [99 + i for i in range(len(vals) + 1 + (len(k) % 2))]
                params.add(k, np.array(decoy) if plan.get("array") else decoy)
                params.set_unpack_parameter(k)
                params.get_num_unpacked_variations()
                params.get_unpacked_params_list()
                params[k] = np.array(vals) if plan.get("array") else vals
                continue
            params.add(k, np.array(vals) if plan.get("array") else vals)
            params.set_unpack_parameter(k)
        s = SimulationResults()
        s.set_parameters(params)
        for v, obs in enumerate(sp["obs"]):
            for nm in names:
                r = make_result(nm, False)
                r.name = nm
                for o in obs[nm]:
                    do_update(r, nm, o)
                s.append_result(r)
        built.append(s)
    before = [_set_snapshot(s) for s in built]
    try:
        with op_time_limit(5.0):
            union = combine_simulation_results(built[0], built[1])
    except Exception as e:
        add_violation(res, pid + ".op_raises", 0, "combine_simulation_results raised %s: %s" % (type(e).__name__, e),
                      {"op": "combine", "exc": type(e).__name__, "has_choice": any(is_choice(n) for n in names)})
        res["nontrivial"] = True
        return
    log.add("combine", plan["sets"])
    for i, s in enumerate(built):
        if _set_snapshot(s) != before[i]:
            add_violation(res, pid + ".operand_mutated", 0, "combine_simulation_results changed operand %d" % i, {"op": "combine", "level": "combine"})
            return
    import itertools
    pn = sorted(plan["sets"][0]["grid"])
    ugrid = {k: sorted(set(plan["sets"][0]["grid"][k]) | set(plan["sets"][1]["grid"][k])) for k in pn}
    combos = list(itertools.product(*[ugrid[k] for k in pn]))
    overlap = 0
    for ci, combo in enumerate(combos):
        for nm in names:
            ol = []
            nsrc = 0
            for sp in plan["sets"]:
                own = list(itertools.product(*[sp["grid"][k] for k in pn]))
                if combo in own:
                    ol = ol + sp["obs"][own.index(combo)][nm]
                    nsrc += 1
            if nsrc == 2:
                overlap += 1
            try:
                r = union[nm][ci]
            except (KeyError, IndexError):
                add_violation(res, pid + ".grouping", 0, "combined set has no '%s' result for combination %s" % (nm, combo), {"op": "combine", "level": "combine"})
                return
            if not ol:
                continue
            want, _ = expected_stats(ol, nm, False)
            why = compare_stats(stats_of(r, nm), want, nm, mode, ol)
            if why:
                add_violation(res, pid + ".grouping", 0, "combined result %s for %s=%s: %s" % (nm, pn, combo, why),
                              {"op": "combine", "level": "combine", "type": nm})
                return
    sc = plan.get("scale")
    if plan.get("mixed_types"):
        sc_ = 1.0 if sc is None else sc
        got_params = {k: [round(float(x) / sc_, 6) for x in union.params[k]] for k in pn}
        ugrid = {k: [round(float(x), 6) for x in v] for k, v in ugrid.items()}
    elif sc is None:
        got_params = {k: [int(x) for x in union.params[k]] for k in pn}
    else:
        got_params = {k: [int(round(float(x) / sc)) for x in union.params[k]] for k in pn}
        if any(len(union.params[k]) != len(ugrid[k]) for k in pn):
            got_params = {k: [float(x) for x in union.params[k]] for k in pn}
    if got_params != ugrid:
        add_violation(res, pid + ".grouping", 0, "combined parameters %s, union of the grids %s" % (got_params, ugrid), {"op": "combine", "level": "combine"})
        return
    log.add("state", [sorted((nm, [stats_of(r, nm) for r in union[nm]]) for nm in names)])
    # the union is the caller's own object now: updating its results must not reach the operands
    snap_ops = [_set_snapshot(s) for s in built]
    rs_u = np.random.RandomState(len(combos) + 7)
    for nm in names:
        for r in union[nm]:
            if r.num_updates > 0 or True:
                o_ = [int(rs_u.randint(0, CHOICE_NUMS[nm])), None] if is_choice(nm) else ([int(rs_u.randint(0, 9)), 2] if nm == "RATIO" else [int(rs_u.randint(0, 9)), None])
                try:
                    do_update(r, nm, o_)
                except Exception:       # noqa: BLE001
                    pass
    for i, s in enumerate(built):
        if _set_snapshot(s) != snap_ops[i]:
            add_violation(res, pid + ".operand_mutated", 1, "updating the results of the combined set changed operand %d of combine_simulation_results" % i,
                          {"op": "combine", "level": "combine", "type": "union_shares_operand_result"})
            return
    res["nontrivial"] = True
    if overlap:
        bump(res["probes"], "combine_overlapping_combination")
    res["state_keys"].append("combine|%s|%s|unp=%d|overlap=%s" % ("+".join(sorted(names)), mode, len(pn), min(overlap, 3)))


# --------------------------------------------------------------------------
# shrinking
# --------------------------------------------------------------------------
def shrink(plan):
    P = lambda: copy.deepcopy(plan)   # noqa: E731
    if plan["level"] in ("result", "set"):
        for cand in ddmin_candidates(plan["ops"], 1):
            c = P()
            c["ops"] = cand
            yield c
        if plan["mode"] != "exact":
            c = P()
            c["mode"] = "exact"
            yield c
        if plan.get("acc_form"):
            c = copy.deepcopy(plan)
            c.pop("acc_form")
            yield c
        if plan["level"] == "result" and plan.get("accumulate"):
            c = P()
            c["accumulate"] = False
            yield c
        if plan["level"] == "set" and len(plan["names"]) > 1:
            for nm in plan["names"]:
                c = P()
                c["names"] = [x for x in plan["names"] if x != nm]
                for op in c["ops"]:
                    if "obs" in op:
                        op["obs"].pop(nm, None)
                yield c
        for i, op in enumerate(plan["ops"]):
            if "obs" in op and plan["level"] == "result" and isinstance(op["obs"][0], (int, float)) and op["obs"][0] not in (0, 1):
                c = P()
                c["ops"][i]["obs"][0] = 1
                yield c
    else:
        if len(plan["names"]) > 1:
            for nm in plan["names"]:
                c = P()
                c["names"] = [x for x in plan["names"] if x != nm]
                yield c
        for si, sp in enumerate(plan["sets"]):
            for k in sorted(sp["grid"]):
                if len(sp["grid"][k]) > 1:
                    c = P()
                    g = c["sets"][si]["grid"]
                    # drop the last value of k and the observations of the dropped combinations
                    import itertools
                    pn = sorted(g)
                    own = list(itertools.product(*[g[x] for x in pn]))
                    keep = [i for i, combo in enumerate(own) if combo[pn.index(k)] != g[k][-1]]
                    c["sets"][si]["obs"] = [c["sets"][si]["obs"][i] for i in keep]
                    g[k] = g[k][:-1]
                    yield c
            for v in range(len(sp["obs"])):
                for nm in plan["names"]:
                    if len(sp["obs"][v][nm]) > 1:
                        c = P()
                        c["sets"][si]["obs"][v][nm] = sp["obs"][v][nm][:1]
                        yield c
