"""C13 (history clause): path-loss models stay monotone, invertible and
unit-consistent after any sequence of parameter setter calls, including
REJECTED setters (the one fault-like event here), which must leave the model
unchanged.  Stateless reference formulas are evaluated from the model's public
current parameters after every step.  Shadowing is never enabled."""
import copy
import math
import warnings

import numpy as np

from simkit.core import (EventLog, HarnessError, add_violation, bump, ddmin_candidates, new_result, op_time_limit, use_repo)

use_repo()
from pyphysim.channels import antennagain, pathloss   # noqa: E402

C_LIGHT = 299792458.0


def warm_up():
    pass


def gen_plan(rng, tier, idx, opts):
    model = rng.choice(["general", "freespace", "freespace", "freespace", "3gpp1", "metis", "hata", "hata"])
    cfg = {}
    if model == "general":
        cfg = {"n": round(rng.uniform(1.5, 5.0), 3), "C": round(rng.uniform(20, 140), 2)}
        if rng.random() < 0.15:
            cfg["C"] = 0.0            # the loss is EXACTLY 0 dB at d = 1: admissible (linear value 1), the end point of the range
    elif model == "freespace":
        cfg = {"n": rng.choice([2.0, 2.0, round(rng.uniform(1.6, 4.5), 3)]), "fc": rng.choice([900.0, 2000.0, round(rng.uniform(100, 6000), 1)])}
    elif model == "metis":
        cfg = {"fc": rng.choice([900.0, 2600.0, round(rng.uniform(500, 6000), 1)])}
    ops = []
    for _ in range(rng.randint(1, 12)):
        r = rng.random()
        if r < 0.2:
            ops.append({"op": "policy", "v": rng.random() < 0.6})
            continue
        if r < 0.31 and r >= 0.27:
            ops.append({"op": "plot", "seed": rng.randrange(1 << 30)})
            continue
        if r < 0.36 and r >= 0.34:
            # ANOTHER model object of the same class, with other parameters, is built and queried in between (two cells, two
            # bands): what it does must not show in the object under test (class-level or module-level state)
            ops.append({"op": "other_model", "seed": rng.randrange(1 << 30)})
            continue
        if r < 0.34 and r >= 0.31:
            # the model object is copied (copy.copy / copy.deepcopy); one of the two is used further, the other must keep
            # answering for ITS parameters
            ops.append({"op": "fork", "how": rng.choice(["copy", "copy", "deepcopy"]), "use_copy": rng.random() < 0.5})
            continue
        if r < 0.27:
            # shadowing switched on (or off again): while it is on only the policy relations are defined (the loss is random;
            # the library draws from numpy's GLOBAL generator, which the world re-seeds before every query)
            ops.append({"op": "shadow", "on": rng.random() < 0.6, "sigma": rng.choice([8.0, 3.0, 12.0]), "seed": rng.randrange(1 << 30)})
            continue
        if model == "freespace":
            if rng.random() < 0.5:
                ops.append({"op": "set", "attr": "n", "v": round(rng.uniform(1.5, 5.0), 3) if rng.random() < 0.8 else 2.0})
            else:
                ops.append({"op": "set", "attr": "fc", "v": round(10 ** rng.uniform(2, 3.8), 2)})
                if rng.random() < 0.3:
                    # a whole number of MHz held in a small numpy integer type (e.g. read from a table of carriers)
                    ops[-1]["v"] = int(round(ops[-1]["v"]))
                    ops[-1]["np"] = rng.choice(["int32", "int64", "uint32", "float32"])
        elif model == "metis":
            ops.append({"op": "set", "attr": "fc", "v": round(10 ** rng.uniform(2.5, 3.8), 2)})
        elif model == "hata":
            a = rng.choice(["fc", "hbs", "hms", "area_type"])
            valid = rng.random() < 0.7
            if a == "fc":
                v = round(rng.uniform(150, 1500), 1) if valid else rng.choice([10.0, 149.9, 1500.1, 5000.0])
            elif a == "hbs":
                v = round(rng.uniform(30, 200), 1) if valid else rng.choice([1.0, 29.9, 200.5, 1e4])
            elif a == "hms":
                v = round(rng.uniform(1, 10), 2) if valid else rng.choice([0.0, 0.99, 10.01, 50.0])
            else:
                v = rng.choice(["open", "suburban", "medium city", "large city"]) if valid else rng.choice(["rural", "", "Open", "city"])
            if a == "hbs" and rng.random() < 0.2:
                v = "=fc"            # a coincidence of two parameters: the base-station height happens to equal the carrier (both 150..200)
            ops.append({"op": "set", "attr": a, "v": v})
        else:
            ops.append({"op": "eval"})
    return {"world": "pathloss", "model": model, "cfg": cfg, "dist_seed": rng.randrange(1 << 30), "ops": ops,
            "sectors": rng.choice([3, 6])}


def build(plan):
    m, cfg = plan["model"], plan["cfg"]
    if m == "general":
        return pathloss.PathLossGeneral(cfg["n"], cfg["C"])
    if m == "freespace":
        return pathloss.PathLossFreeSpace(cfg["n"], cfg["fc"])
    if m == "3gpp1":
        return pathloss.PathLoss3GPP1()
    if m == "metis":
        return pathloss.PathLossMetisPS7(cfg["fc"])
    if m == "hata":
        return pathloss.PathLossOkomuraHata()
    raise HarnessError("unknown model")


def public_state(obj, model):
    if model == "freespace":
        return {"n": obj.n, "fc": obj.fc, "policy": obj.handle_small_distances_bool}
    if model == "metis":
        return {"fc": obj.fc, "policy": obj.handle_small_distances_bool}
    if model == "hata":
        return {"fc": obj.fc, "hbs": obj.hbs, "hms": obj.hms, "area_type": obj.area_type, "policy": obj.handle_small_distances_bool}
    return {"policy": obj.handle_small_distances_bool}


def reference_dB(model, st, cfg, d, walls=0):
    """Stateless formulas from the cited norms, from the PUBLIC current parameters."""
    d = np.asarray(d, dtype=float)
    if model == "general":
        return 10 * cfg["n"] * np.log10(d) + cfg["C"]
    if model == "3gpp1":
        return 128.1 + 37.6 * np.log10(d)
    if model == "freespace":
        if st["n"] == 2.0:        # Friis: 20 log10(4 pi d f / c), d in km, f in MHz
            return 20 * np.log10(4 * math.pi * d * 1e3 * st["fc"] * 1e6 / C_LIGHT)
        # no norm defines other exponents: the reference is a FRESH model built from the public current
        # parameters (history independence: what the setters left behind must equal a new object)
        fresh = pathloss.PathLossFreeSpace(st["n"], st["fc"])
        return np.asarray(fresh._calc_deterministic_path_loss_dB(d), dtype=float)
    if model == "metis":
        f = st["fc"] / 1000.0
        if walls == 0:
            return 18.7 * np.log10(d) + 46.8 + 20 * np.log10(f / 5.0)
        return 36.8 * np.log10(d) + 43.8 + 20 * np.log10(f / 5.0) + 5 * (walls - 1)
    if model == "hata":
        fc, hbs, hms, area = st["fc"], st["hbs"], st["hms"], st["area_type"]
        if area == "large city":
            a = 3.2 * math.log10(11.75 * hms) ** 2 - 4.97 if fc > 300 else 8.29 * math.log10(1.54 * hms) ** 2 - 1.1
            K = 0.0
        else:
            a = (1.1 * math.log10(fc) - 0.7) * hms - (1.56 * math.log10(fc) - 0.8)
            K = {"open": 4.78 * math.log10(fc) ** 2 - 18.33 * math.log10(fc) + 40.94,
                 "suburban": 2 * math.log10(fc / 28.0) ** 2 + 5.4, "medium city": 0.0}[area]
        return 69.55 + 26.16 * math.log10(fc) - 13.82 * math.log10(hbs) - a + (44.9 - 6.55 * math.log10(hbs)) * np.log10(d) - K
    raise HarnessError("no reference")


def execute(plan):
    res = new_result()
    log = EventLog()
    pid = plan.get("property", "C13")
    model = plan["model"]
    warnings.simplefilter("ignore")
    obj = build(plan)
    rs = np.random.RandomState(plan["dist_seed"])
    last = {"op": None, "rejected": False}
    sets = 0
    prev_attr = [None]

    def viol(inv, step, detail, **sig):
        sg = {"model": model, "last_op": last["op"], "after_rejected_setter": last["rejected"]}
        sg.update(sig)
        add_violation(res, pid + "." + inv, step, detail, sg)

    shadow = {"on": False, "seed": 0}
    others = []
    flags = {"policy": bool(obj.handle_small_distances_bool), "shadow": bool(obj.use_shadow_bool)}

    def shadow_relations(step):
        """With shadowing the loss is random, but the policy still holds: never a negative loss in dB (linear gain <= 1)
        unless the model raises, and it may raise only under the 'raise' policy; the linear value is 10^(-dB/10) for the
        same draw (the global numpy generator is re-seeded before each of the two queries)."""
        st = public_state(obj, model)
        policy = st["policy"]
        if model == "metis":
            d = np.sort(10 ** rs.uniform(-1, 3, size=24))
            kw = {"num_walls": int(rs.randint(0, 4))}
        elif model == "hata":
            d = np.sort(rs.uniform(1.0, 20.0, size=24))
            kw = {}
        else:
            d = np.sort(10 ** rs.uniform(-4, 2, size=24))
            kw = {}
        for q in (d, float(d[int(rs.randint(d.size))]), float(d[0])):
            sd = (shadow["seed"] + step * 7919 + (0 if isinstance(q, float) else 1)) % (1 << 31)
            try:
                np.random.seed(sd)
                db = obj.calc_path_loss_dB(np.array(q, copy=True) if not isinstance(q, float) else q, **kw)
            except RuntimeError:
                if policy:
                    viol("small_distance", step, "shadowing on, policy 'clamp': calc_path_loss_dB raised", rel="policy", shadow=True)
                    return
                bump(res["probes"], "shadowed_loss_raised_under_raise_policy")
                continue
            dbv = np.atleast_1d(np.asarray(db, dtype=float))
            if np.any(dbv < 0):
                viol("small_distance", step, "shadowing on (sigma %.3g), policy %s: a loss of %.4g dB was returned (neither clamped to 0 dB nor refused)" % (
                    obj.sigma_shadow, "clamp" if policy else "raise", float(dbv.min())), rel="negative_loss", shadow=True)
                return
            try:
                np.random.seed(sd)
                lin = obj.calc_path_loss(np.array(q, copy=True) if not isinstance(q, float) else q, **kw)
            except RuntimeError:
                viol("linear", step, "shadowing on: calc_path_loss raised where calc_path_loss_dB (same draw) did not", rel="linear", shadow=True)
                return
            linv = np.atleast_1d(np.asarray(lin, dtype=float))
            if linv.shape != dbv.shape or np.any(linv > 1.0) or np.any(linv <= 0) or np.max(np.abs(linv - 10 ** (-dbv / 10.0)) / (10 ** (-dbv / 10.0))) > 1e-9:
                viol("linear", step, "shadowing on: the linear loss is not 10^(-dB/10) in (0,1] for the same draw", rel="linear", shadow=True)
                return
            bump(res["probes"], "shadowed_queries")
            if np.any(dbv == 0.0):
                bump(res["probes"], "shadowed_loss_clamped_to_0dB")
        if model in ("general", "freespace", "3gpp1"):
            # documented: the distance-for-a-loss queries ignore the shadowing.  With it switched on they must return what they
            # return with it switched off (deterministic), and that distance must have the asked loss.
            want = np.sort(rs.uniform(40.0, 160.0, size=6))
            try:
                on_arr = np.asarray(obj.which_distance_dB(want.copy()), dtype=float)
                on_sc = float(obj.which_distance_dB(float(want[2])))
                obj.use_shadow_bool = False
                off_arr = np.asarray(obj.which_distance_dB(want.copy()), dtype=float)
                back = np.asarray(obj.calc_path_loss_dB(off_arr.copy()), dtype=float)
            finally:
                obj.use_shadow_bool = True
            ok = on_arr.shape == off_arr.shape and np.allclose(on_arr, off_arr, rtol=1e-12, atol=0) and abs(on_sc - off_arr[2]) <= 1e-9 * off_arr[2]
            valid = back > 1e-9          # distances the model clamps are outside the inverse's domain
            if not ok or np.max(np.abs(back[valid] - want[valid]), initial=0.0) > 1e-6:
                viol("inverse", step, "with shadowing switched on which_distance_dB(%s) = %s, with it off %s (loss there %s)" % (
                    np.round(want, 3).tolist(), on_arr.tolist(), off_arr.tolist(), np.round(back, 6).tolist()), rel="inverse_shadow", shadow=True)
                return
            bump(res["probes"], "inverse_queried_while_shadowing_on")
        log.add("shadow_relations", step)

    def relations(step):
        st = public_state(obj, model)
        policy = st["policy"]
        if model == "metis":
            d = np.sort(10 ** rs.uniform(0, 3, size=18))               # metres
            walls_list = [0, int(rs.randint(1, 6))]
        elif model == "hata":
            d = np.sort(rs.uniform(1.0, 20.0, size=18))                 # km, the model's range
            walls_list = [None]
        else:
            d = np.sort(10 ** rs.uniform(-3, 3, size=18))               # km, six decades
            if model == "general":
                d = np.sort(np.append(d[:-1], 1.0))                     # log10(1) = 0 exactly
            walls_list = [None]
        for walls in walls_list:
            kw = {} if walls is None else {"num_walls": walls}
            ref = reference_dB(model, st, plan["cfg"], d, walls or 0)
            neg = ref < 0
            try:
                got = obj.calc_path_loss_dB(d.copy(), **kw)
                raised = None
            except RuntimeError as e:
                got, raised = None, e
            if neg.any():
                bump(res["probes"], "distance_too_small_for_model")
                if not policy:
                    if raised is None:
                        viol("small_distance", step, "loss would be negative at d=%.4g but calc_path_loss_dB returned instead of raising (policy: raise)" % d[neg][0], rel="policy")
                        return
                    d = d[~neg]
                    ref = ref[~neg]
                    if d.size == 0:
                        continue
                    got = obj.calc_path_loss_dB(d.copy(), **kw)
                else:
                    if raised is not None:
                        viol("small_distance", step, "policy is clamp-to-0 dB but calc_path_loss_dB raised: %s" % raised, rel="policy")
                        return
                    if np.any(np.asarray(got)[neg] != 0.0):
                        viol("small_distance", step, "policy is clamp-to-0 dB but the loss at too-small distances is %s" % np.asarray(got)[neg][:3], rel="policy")
                        return
                    ref = np.where(neg, 0.0, ref)
            elif raised is not None:
                viol("raises", step, "calc_path_loss_dB raised for admissible distances: %s" % raised, rel="raises")
                return
            got = np.asarray(got, dtype=float)
            if got.shape != d.shape:
                viol("formula", step, "array in, shape %s out (expected %s)" % (got.shape, d.shape), rel="shape")
                return
            tol = 0.01 if (model == "freespace" and st.get("n") == 2.0) else 1e-6
            if np.max(np.abs(got - ref)) > max(tol, 1e-9 * np.max(np.abs(ref))):
                j = int(np.argmax(np.abs(got - ref)))
                viol("formula", step, "loss %.6f dB at d=%.6g with parameters %s, the norm's formula gives %.6f dB" % (got[j], d[j], st, ref[j]), rel="formula")
                return
            if np.any(np.diff(got) < -1e-9):
                viol("monotone", step, "loss in dB decreases with distance for parameters %s" % st, rel="monotone")
                return
            lin = np.asarray(obj.calc_path_loss(d.copy(), **kw), dtype=float)
            if np.max(np.abs(lin - 10 ** (-got / 10.0)) / 10 ** (-got / 10.0)) > 1e-9 or np.any(lin <= 0) or np.any(lin > 1.0 + 1e-12):
                viol("units", step, "linear loss is not 10^(-dB/10) in (0,1] for parameters %s" % st, rel="units")
                return
            # scalar call agrees with the array call
            j = int(rs.randint(0, d.size))
            try:
                sc = obj.calc_path_loss_dB(float(d[j]), **kw)
            except RuntimeError as e:
                viol("raises", step, "scalar call at admissible d=%.6g raised: %s" % (d[j], e), rel="scalar")
                return
            if abs(float(sc) - got[j]) > 1e-9 * max(1.0, abs(got[j])):
                viol("formula", step, "scalar loss %.9g differs from array loss %.9g at d=%.6g" % (sc, got[j], d[j]), rel="scalar")
                return
            if model in ("general", "freespace", "3gpp1"):
                pos = got > 0
                if pos.any():
                    back = np.asarray(obj.which_distance_dB(got[pos]), dtype=float)
                    if np.max(np.abs(back - d[pos]) / d[pos]) > 1e-9:
                        viol("inverse", step, "which_distance_dB(calc_path_loss_dB(d)) != d for parameters %s (worst rel err %.3g)" % (
                            st, float(np.max(np.abs(back - d[pos]) / d[pos]))), rel="inverse")
                        return
                    jj = int(np.flatnonzero(pos)[0])
                    sc_back = obj.which_distance_dB(float(got[jj]))            # scalar query agrees with the array query
                    sc_back2 = obj.which_distance(float(lin[jj]))
                    if abs(float(sc_back) - d[jj]) > 1e-9 * d[jj] or abs(float(sc_back2) - d[jj]) > 1e-8 * d[jj]:
                        viol("inverse", step, "scalar inverse query gives %r / %r for d=%.9g" % (sc_back, sc_back2, d[jj]), rel="inverse_scalar")
                        return
                    back2 = np.asarray(obj.which_distance(lin[pos]), dtype=float)
                    if np.max(np.abs(back2 - d[pos]) / d[pos]) > 1e-8:
                        viol("inverse", step, "which_distance(calc_path_loss(d)) != d for parameters %s" % st, rel="inverse_linear")
                        return
                    # a caller that keeps ONE buffer of losses: refills it in place between two queries, and edits the first
                    # answer in place (unit conversion) before asking again
                    if int(pos.sum()) >= 2:
                        buf = np.array(got[pos], copy=True)
                        r1 = obj.which_distance_dB(buf)
                        r1_copy = np.array(r1, copy=True)
                        buf[:] = buf[::-1].copy()
                        r2 = np.asarray(obj.which_distance_dB(buf), dtype=float)
                        want2 = d[pos][::-1]
                        if r2.shape != want2.shape or np.max(np.abs(r2 - want2) / want2) > 1e-9:
                            viol("inverse", step, "which_distance_dB of a loss buffer refilled in place answers for the OLD contents", rel="inverse_buffer")
                            return
                        if isinstance(r1, np.ndarray):
                            try:
                                r1 *= 1000.0
                            except ValueError:
                                pass
                        r3 = np.asarray(obj.which_distance_dB(buf), dtype=float)
                        if np.max(np.abs(r3 - want2) / want2) > 1e-9:
                            viol("inverse", step, "an earlier answer of which_distance_dB edited by the caller changed a later answer", rel="inverse_buffer")
                            return
                        del r1_copy
        # whole-number distances held in an INTEGER array (and a Python int): same loss as for the same distances as floats
        if model in ("general", "freespace", "3gpp1", "hata"):
            di = np.array([1, 2, 5, 10, 20], dtype=np.int64) if model != "hata" else np.array([1, 2, 5, 10, 20], dtype=np.int32)
            try:
                li = np.asarray(obj.calc_path_loss_dB(di.copy()), dtype=float)
                lf = np.asarray(obj.calc_path_loss_dB(di.astype(float)), dtype=float)
                l1 = float(obj.calc_path_loss_dB(5))
            except RuntimeError:
                li = lf = None          # too small for the model under the raise policy: both forms refuse
            if li is not None and (li.shape != lf.shape or np.max(np.abs(li - lf)) > 1e-9 or abs(l1 - lf[2]) > 1e-9):
                viol("formula", step, "the loss for integer distances %s differs from the loss for the same distances as floats" % di.tolist(), rel="int_distance")
                return
        # distances as a 2-D array (e.g. base stations x users), including too-small ones: same law per element
        if model != "hata":
            lo, hi = (0, 3) if model == "metis" else (-3, 3)
            d2 = 10 ** rs.uniform(lo, hi, size=(3, 4))
            if model != "metis" and rs.rand() < 0.5:
                d2[int(rs.randint(0, 3)), int(rs.randint(0, 4))] = 10 ** rs.uniform(-9, -5)     # certainly too small for most parameter sets
                if rs.rand() < 0.4:
                    d2[int(rs.randint(0, 3)), int(rs.randint(0, 4))] = 0.0                     # a user standing AT the base station: distance exactly 0
            ref2 = reference_dB(model, st, plan["cfg"], d2, 0)
            neg2 = ref2 < 0
            tol2 = 0.011 if (model == "freespace" and st.get("n") == 2.0) else 1e-6
            if np.any(np.abs(ref2) < 2 * tol2):
                return           # a loss within the tolerance of 0 dB: which side of the policy it falls on is not defined
            try:
                got2 = obj.calc_path_loss_dB(d2.copy())
                raised2 = None
            except Exception as e:       # noqa: BLE001
                got2, raised2 = None, e
            if neg2.any():
                bump(res["probes"], "too_small_distance_in_2d_array")
                if policy:
                    if raised2 is not None:
                        viol("small_distance", step, "policy is clamp-to-0 dB but a 2-D distance array raised %s: %s" % (type(raised2).__name__, raised2), rel="policy_2d")
                        return
                    want2 = np.where(neg2, 0.0, ref2)
                    if np.shape(got2) != d2.shape or np.max(np.abs(np.asarray(got2, dtype=float) - want2)) > tol2:
                        viol("small_distance", step, "2-D distances with the clamp policy: loss %s, expected %s" % (
                            np.round(np.asarray(got2, dtype=float), 3).tolist(), np.round(want2, 3).tolist()), rel="policy_2d")
                        return
                elif not isinstance(raised2, RuntimeError):
                    viol("small_distance", step, "2-D distances with a too-small entry and policy 'raise': got %r instead of RuntimeError" % (raised2,), rel="policy_2d")
                    return
            else:
                if raised2 is not None or np.shape(got2) != d2.shape or np.max(np.abs(np.asarray(got2, dtype=float) - ref2)) > tol2:
                    viol("formula", step, "2-D distance array: %s" % (raised2 if raised2 is not None else "loss differs from the per-element loss"), rel="array_2d")
                    return
        if model == "metis":
            # wall counts given as an array: same shape, and broadcast along a non-leading axis (one count per room)
            d2 = np.sort(10 ** rs.uniform(0, 3, size=(3, 4)), axis=1)
            for wshape in ((3, 4), (3, 1), (1, 4)):
                walls = rs.randint(0, 6, size=wshape)
                wb = np.broadcast_to(walls, d2.shape)
                ref2 = np.empty(d2.shape)
                for idx_ in np.ndindex(d2.shape):
                    ref2[idx_] = reference_dB(model, st, plan["cfg"], d2[idx_], int(wb[idx_]))
                if np.any(ref2 < 0):
                    continue
                try:
                    got2 = np.asarray(obj.calc_path_loss_dB(d2.copy(), num_walls=walls.copy()), dtype=float)
                except Exception as e:
                    viol("raises", step, "calc_path_loss_dB(d %s, num_walls %s) raised %s: %s" % (d2.shape, wshape, type(e).__name__, e), rel="walls_array")
                    return
                if got2.shape != d2.shape or np.max(np.abs(got2 - ref2)) > 1e-6:
                    viol("formula", step, "array wall counts of shape %s with distances of shape %s: loss differs from the per-element loss by %.3g dB" % (
                        wshape, d2.shape, float(np.max(np.abs(got2 - ref2))) if got2.shape == d2.shape else -1), rel="walls_array")
                    return
            bump(res["probes"], "metis_array_wall_counts")
        log.add("relations", step, {k: v for k, v in st.items()})

    try:
        relations(-1)
        for step, op in enumerate(plan["ops"]):
            if res["status"] != "ok":
                break
            o = op["op"]
            with op_time_limit(20.0):
                if o == "policy":
                    obj.handle_small_distances_bool = bool(op["v"])
                    flags["policy"] = bool(op["v"])
                    last.update(op="policy", rejected=False)
                elif o == "other_model":
                    rs2 = np.random.RandomState(op["seed"])
                    cfg2 = dict(plan["cfg"])
                    if "n" in cfg2:
                        cfg2["n"] = float(np.round(rs2.uniform(1.6, 4.8), 3))
                    if "C" in cfg2:
                        cfg2["C"] = float(np.round(rs2.uniform(20, 140), 2))
                    if "fc" in cfg2:
                        cfg2["fc"] = float(np.round(rs2.uniform(600, 5900), 1))
                    o2 = build(dict(plan, cfg=cfg2))
                    if model == "hata":
                        o2.fc = float(np.round(rs2.uniform(150, 1500), 1))
                        o2.hbs = float(np.round(rs2.uniform(30, 200), 1))
                        o2.area_type = ["open", "suburban", "medium city", "large city"][int(rs2.randint(4))]
                    o2.handle_small_distances_bool = True
                    dq = 10 ** rs2.uniform(0.1, 1.2, size=5) if model != "metis" else 10 ** rs2.uniform(1, 3, size=5)
                    o2.calc_path_loss_dB(dq)
                    o2.calc_path_loss(float(dq[0]))
                    last.update(op="other_model", rejected=False)
                    bump(res["probes"], "another_model_object_used_in_between")
                elif o == "fork":
                    if shadow["on"] or others:
                        continue
                    g2 = copy.copy(obj) if op["how"] == "copy" else copy.deepcopy(obj)
                    if op["use_copy"]:
                        others.append((obj, dict(flags)))
                        obj = g2
                    else:
                        others.append((g2, dict(flags)))
                    last.update(op="fork", rejected=False)
                    bump(res["probes"], "model_forked_by_" + op["how"])
                elif o == "plot":
                    # the plotting helper of the model (any object with a .plot method serves as the axes): it computes the
                    # deterministic curve through the public query and must leave the model as it found it
                    lo_, hi_ = (1.0, 3.0) if model == "metis" else ((0.0, 1.3) if model == "hata" else (-1.0, 2.0))
                    dd = np.sort(10 ** rs.uniform(lo_, hi_, size=8))
                    drawn = []

                    class _Ax:
                        def plot(self, x, y, **kw):
                            drawn.append((np.array(x, dtype=float), np.array(y, dtype=float)))
                    try:
                        obj.plot_deterministic_path_loss_in_dB(dd.copy(), ax=_Ax())
                    except RuntimeError:
                        if flags["policy"]:
                            raise
                        drawn = None           # some distance was too small under the 'raise' policy: the helper may refuse
                    if drawn:
                        np.random.seed(op["seed"] % (1 << 31))
                        saved_sh = obj.use_shadow_bool
                        obj.use_shadow_bool = False
                        try:
                            want_curve = np.asarray(obj.calc_path_loss_dB(dd.copy()), dtype=float)
                        finally:
                            obj.use_shadow_bool = saved_sh
                        if drawn[0][1].shape != want_curve.shape or np.max(np.abs(drawn[0][1] - want_curve)) > 1e-9:
                            viol("formula", step, "the plotted curve is not the deterministic loss of the model", rel="plot")
                            break
                    last.update(op="plot", rejected=False)
                    bump(res["probes"], "plot_helper_called")
                elif o == "set":
                    if op["v"] == "=fc":
                        if not (30 <= float(obj.fc) <= 200):
                            continue
                        op = dict(op, v=float(obj.fc))
                    before = public_state(obj, model)
                    rejected = False
                    try:
                        setattr(obj, op["attr"], getattr(np, op["np"])(op["v"]) if op.get("np") else op["v"])
                        sets += 1
                    except RuntimeError:
                        rejected = True
                        bump(res["faults"], "rejected-setter")
                        after = public_state(obj, model)
                        if after != before:
                            viol("rejected_setter", step, "rejected %s=%r changed the model: %s -> %s" % (op["attr"], op["v"], before, after), rel="rejected")
                            break
                    last.update(op="set:" + op["attr"], rejected=rejected)
                    if not rejected and model == "hata":
                        ok = {"fc": lambda v: 150 <= v <= 1500, "hbs": lambda v: 30 <= v <= 200, "hms": lambda v: 1 <= v <= 10,
                              "area_type": lambda v: v in ("open", "suburban", "medium city", "large city")}[op["attr"]](op["v"])
                        if not ok:
                            viol("rejected_setter", step, "inadmissible %s=%r was accepted" % (op["attr"], op["v"]), rel="accepted")
                            break
                    res["state_keys"].append("%s|%s|rejected=%s|policy=%s|prev=%s" % (model, op["attr"], rejected, obj.handle_small_distances_bool, prev_attr[0]))
                    prev_attr[0] = op["attr"]
                elif o == "shadow":
                    flags["shadow"] = bool(op["on"])
                    obj.use_shadow_bool = bool(op["on"])
                    if op["on"]:
                        obj.sigma_shadow = float(op["sigma"])
                    shadow["on"], shadow["seed"] = bool(op["on"]), op["seed"]
                    last.update(op="shadow_on" if op["on"] else "shadow_off", rejected=False)
                    bump(res["probes"], "shadowing_switched_" + ("on" if op["on"] else "off"))
                elif o == "eval":
                    last.update(op="eval", rejected=False)
                else:
                    raise HarnessError("unknown op")
                log.add(o, op.get("attr"), op.get("v"))
                if bool(obj.handle_small_distances_bool) != flags["policy"]:
                    # the relations below follow the object's own flag: a POLICY that changed without being set is reported here
                    # ("raise or clamp according to the CONFIGURED policy")
                    viol("small_distance", step, "after %s the model reads policy=%r, but the policy configured last is %r" % (
                        o, obj.handle_small_distances_bool, flags["policy"]), rel="flag_drift")
                    break
                if bool(obj.use_shadow_bool) != flags["shadow"]:
                    # observed on the unchanged tree: the plot helper switches shadowing off, and when the query inside it raises
                    # (policy 'raise', a distance too small) it does not switch it on again.  Shadowing is not part of the
                    # statement: the world follows the object's flag and counts the event.
                    bump(res["probes"], "shadow_flag_left_off_by_a_failed_plot")
                    flags["shadow"] = bool(obj.use_shadow_bool)
                    shadow["on"] = flags["shadow"]
                if shadow["on"]:
                    shadow_relations(step)
                else:
                    relations(step)
                if others and res["status"] == "ok" and o != "fork":
                    # the object that is NOT used further: every relation must still hold for ITS public parameters
                    main_, mflags_ = obj, dict(flags)
                    obj = others[0][0]
                    flags.update(others[0][1])
                    try:
                        if bool(obj.handle_small_distances_bool) != flags["policy"] or bool(obj.use_shadow_bool) != flags["shadow"]:
                            viol("small_distance", step, "an operation on one copy of the model changed a flag of the other copy", rel="fork")
                        else:
                            relations(step)
                            if res["status"] != "ok":
                                res["violations"][-1]["detail"] = "on the copy of the model that was NOT touched since the fork: " + res["violations"][-1]["detail"]
                                res["violations"][-1]["signature"]["fork"] = True
                    finally:
                        obj = main_
                        flags.update(mflags_)
        # antenna gain: side assertion only (pure function; not what this check is for)
        ag = antennagain.AntGainBS3GPP25996(plan["sectors"])
        ang = np.sort(rs.uniform(-180, 180, size=12))
        g = np.asarray(ag.get_antenna_gain(ang), dtype=float)
        g0 = float(ag.get_antenna_gain(0.0))
        floor = g0 * 10 ** (-ag.Am / 10.0)
        if np.any(g > g0 * (1 + 1e-12)) or np.any(g < floor * (1 - 1e-12)) or np.max(np.abs(g - np.asarray(ag.get_antenna_gain(-ang)))) > 1e-12 * g0:
            viol("antenna_gain", len(plan["ops"]), "sector antenna gain is not peaked at boresight / symmetric / floored", rel="antenna")
        # whole-degree angles in the integer dtypes a caller may hold them in, and the end points exactly
        for dt in (np.int8, np.int16, np.int32, np.int64, np.float32):
            lim = 127 if dt is np.int8 else 180
            ai = np.array(sorted(set([0, lim, -lim] + [int(x) for x in rs.randint(-lim, lim + 1, size=10)])), dtype=dt)
            gi = np.asarray(ag.get_antenna_gain(ai), dtype=float)
            gf = np.asarray(ag.get_antenna_gain(ai.astype(float)), dtype=float)
            if gi.shape != gf.shape or np.any(gi > g0 * (1 + 1e-6)) or np.any(gi < floor * (1 - 1e-6)) or np.max(np.abs(gi - gf)) > 1e-5 * g0:
                viol("antenna_gain", len(plan["ops"]), "sector antenna gain for %s angles %s differs from the gain for the same angles as floats "
                     "(or leaves [floor, boresight])" % (np.dtype(dt).name, ai.tolist()[:6]), rel="antenna", dtype=np.dtype(dt).name)
                break
    except HarnessError:
        raise
    except Exception as e:
        viol("raises", -2, "%s: %s" % (type(e).__name__, str(e)[:200]), rel="exception", exc=type(e).__name__)
    res["digest"] = log.digest()
    res["steps"] = log.seq
    res["nontrivial"] = len(plan["ops"]) >= 2
    return res


def shrink(plan):
    P = lambda: copy.deepcopy(plan)   # noqa: E731
    for cand in ddmin_candidates(plan["ops"], 0):
        c = P()
        c["ops"] = cand
        yield c
