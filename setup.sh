#!/bin/sh
# Offline setup: nothing to build or fetch. Verifies the interpreter and that
# /repo (not the site-packages copy) is what the checks import.
set -e
cd "$(dirname "$0")"
/venv/bin/python - <<'PY'
import sys
sys.path.insert(0, "/repo")
import numpy, scipy, pyphysim
assert pyphysim.__file__.startswith("/repo/"), pyphysim.__file__
print("setup ok: python", sys.version.split()[0], "numpy", numpy.__version__, "pyphysim", pyphysim.__file__)
PY
